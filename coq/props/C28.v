(* C28 — Access observer records exactly the memory the program touched.
   Proved for all states: a tracked, permitted read marks exactly its address READ; a tracked,
   permitted write to ordinary memory marks its address WRITTEN, and MODIFIED exactly when the
   stored word differs from the old one; denied accesses and untracked (host) accesses leave the
   observer unchanged; a flag lookup after an update is the bitwise OR at that address and
   unchanged elsewhere; every step_in starts from an empty observer.  Which addresses an
   instruction reads and writes is the model's [exec], compared per step with the implementation
   (observer contents are part of `sim.run` observations) and with independent reference access
   sets in harness area simprops. *)
From Coq Require Import ZArith List Bool.
From Model Require Import Bits Word Instr Sim.
From Proofs Require Import SimAccess SimObs IrqProofs SimStepObs SimObsEntry SimStepObs2.
Import ListNotations.
Open Scope Z_scope.

Theorem C28_read_marks : forall e a c s,
  s_obs (fst (read_mem e a c s)) =
  if negb (c_priv c) && negb (in_user a) then s_obs s
  else if c_track c then obs_update (s_obs s) a OBS_READ else s_obs s.
Proof. exact read_obs. Qed.
Print Assumptions C28_read_marks.

Theorem C28_write_marks : forall e a w c s,
  negb (c_priv c) && negb (in_user a) = false -> (IO_START <=? a) = false -> c_track c = true ->
  s_obs (fst (write_mem e a w c s)) =
  let o := obs_update (s_obs s) a OBS_WRITTEN in
  if word_eqb (mget (s_mem s) a) w then o else obs_update o a OBS_MODIFIED.
Proof. exact write_obs_plain. Qed.
Print Assumptions C28_write_marks.

Theorem C28_untracked_write : forall e a w c s, c_track c = false -> s_obs (fst (write_mem e a w c s)) = s_obs s.
Proof. exact write_obs_untracked. Qed.
Print Assumptions C28_untracked_write.

Theorem C28_lookup_after_update : forall o a f b, sorted_obs o ->
  obs_get (obs_update o a f) b = if b =? a then Z.lor (obs_get o a) f else obs_get o b.
Proof. exact obs_get_update. Qed.
Print Assumptions C28_lookup_after_update.

Theorem C28_update_keeps_sorted : forall o a f, sorted_obs o -> sorted_obs (obs_update o a f).
Proof. exact sorted_update. Qed.
Print Assumptions C28_update_keeps_sorted.

(* whole instructions (after the fetch, which is one tracked read of the PC): instructions
   without a memory operand add nothing, on every path; a completed LD/LDR adds exactly READ at
   its effective address; a completed ST to ordinary memory adds WRITTEN and, iff the word
   changes, MODIFIED *)
Theorem C28_no_operand_no_mark : forall e i o s,
  no_mem_operand i = true -> s_obs s = o -> s_obs (fst (exec e i s)) = o.
Proof. intros e i o s N E. exact (exec_obs_neutral e i o N s E). Qed.
Print Assumptions C28_no_operand_no_mark.

Theorem C28_ld_marks_read : forall e dr off s s' u,
  exec e (SLD dr off) s = (s', inl u) -> s_obs s' = obs_update (s_obs s) (wrap16 (s_pc s + off)) OBS_READ.
Proof. exact exec_obs_ld. Qed.
Print Assumptions C28_ld_marks_read.

Theorem C28_ldr_marks_read : forall e dr br off s s' u,
  exec e (SLDR dr br off) s = (s', inl u) ->
  s_obs s' = obs_update (s_obs s) (wrap16 (w_data (rget (s_regs s) br) + off)) OBS_READ.
Proof. exact exec_obs_ldr. Qed.
Print Assumptions C28_ldr_marks_read.

Theorem C28_st_marks_written : forall e sr off s s' u,
  exec e (SST sr off) s = (s', inl u) ->
  let ea := wrap16 (s_pc s + off) in
  (IO_START <=? ea) = false ->
  s_obs s' = let o := obs_update (s_obs s) ea OBS_WRITTEN in
             if word_eqb (mget (s_mem s) ea) (rget (s_regs s) sr) then o else obs_update o ea OBS_MODIFIED.
Proof. exact exec_obs_st. Qed.
Print Assumptions C28_st_marks_written.

Theorem C28_str_marks_written : forall e sr br off s s' u,
  exec e (SSTR sr br off) s = (s', inl u) ->
  let ea := wrap16 (w_data (rget (s_regs s) br) + off) in
  (IO_START <=? ea) = false ->
  s_obs s' = let o := obs_update (s_obs s) ea OBS_WRITTEN in
             if word_eqb (mget (s_mem s) ea) (rget (s_regs s) sr) then o else obs_update o ea OBS_MODIFIED.
Proof. exact exec_obs_str. Qed.
Print Assumptions C28_str_marks_written.
(* indirect accesses: READ at the pointer cell, then the mark(s) at the address it holds *)
Theorem C28_ldi_marks : forall e dr off s s' u,
  exec e (SLDI dr off) s = (s', inl u) ->
  exists s1 w, read_mem e (wrap16 (s_pc s + off)) (default_ctx s) s = (s1, inl w) /\
    s_obs s' = obs_update (obs_update (s_obs s) (wrap16 (s_pc s + off)) OBS_READ) (w_data w) OBS_READ.
Proof. exact exec_obs_ldi. Qed.
Print Assumptions C28_ldi_marks.
Theorem C28_sti_marks : forall e sr off s s' u,
  exec e (SSTI sr off) s = (s', inl u) ->
  exists s1 w, read_mem e (wrap16 (s_pc s + off)) (default_ctx s) s = (s1, inl w) /\
    ((IO_START <=? w_data w) = false ->
     s_obs s' = let o := obs_update (obs_update (s_obs s) (wrap16 (s_pc s + off)) OBS_READ) (w_data w) OBS_WRITTEN in
                if word_eqb (mget (s_mem s1) (w_data w)) (rget (s_regs s1) sr) then o else obs_update o (w_data w) OBS_MODIFIED).
Proof. exact exec_obs_sti. Qed.
Print Assumptions C28_sti_marks.

(* RTI: its two stack pops are marked READ *)
Theorem C28_rti_marks_pops : forall e s s' u,
  exec e SRTI s = (s', inl u) ->
  let sp := w_data (rget (s_regs s) 6) in
  s_obs s' = obs_update (obs_update (s_obs s) sp OBS_READ) (wrap16 (sp + 1)) OBS_READ.
Proof. exact exec_obs_rti. Qed.
Print Assumptions C28_rti_marks_pops.
(* entry into a trap, exception or interrupt routine (stack slots and vector in ordinary memory): the two pushes
   below the supervisor stack pointer are marked WRITTEN, and MODIFIED iff the word changes ([wmark]); the vector
   entry is marked READ; nothing else *)
Theorem C28_wmark_def : forall o a old new,
  wmark o a old new = let o1 := obs_update o a OBS_WRITTEN in if word_eqb old new then o1 else obs_update o1 a OBS_MODIFIED.
Proof. reflexivity. Qed.
Print Assumptions C28_wmark_def.
Theorem C28_entry_sp_def : forall s,
  entry_sp s = if psr_privileged (s_psr s) then w_data (rget (s_regs s) 6) else w_data (s_saved_sp s).
Proof. reflexivity. Qed.
Print Assumptions C28_entry_sp_def.
Theorem C28_interrupt_entry_marks : forall e v p s s' u,
  List.length (s_regs s) = 8%nat -> psr_priority (s_psr s) < p ->
  handle_interrupt e v (Some p) s = (s', inl u) ->
  let a1 := wrap16 (entry_sp s - 1) in let a2 := wrap16 (entry_sp s - 2) in
  (IO_START <=? a1) = false -> (IO_START <=? a2) = false -> (IO_START <=? v) = false ->
  s_obs s' = obs_update (wmark (wmark (s_obs s) a1 (mget (s_mem s) a1) (new_init (s_psr s)))
                                a2 (mget (s_mem s) a2) (new_init (s_pc s))) v OBS_READ.
Proof. exact interrupt_entry_obs. Qed.
Print Assumptions C28_interrupt_entry_marks.
Theorem C28_trap_entry_marks : forall e v s s' u,
  List.length (s_regs s) = 8%nat ->
  handle_interrupt e v None s = (s', inl u) ->
  let a1 := wrap16 (entry_sp s - 1) in let a2 := wrap16 (entry_sp s - 2) in
  (IO_START <=? a1) = false -> (IO_START <=? a2) = false -> (IO_START <=? v) = false ->
  s_obs s' = obs_update (wmark (wmark (s_obs s) a1 (mget (s_mem s) a1) (new_init (s_psr s)))
                                a2 (mget (s_mem s) a2) (new_init (s_pc s))) v OBS_READ.
Proof. exact trap_entry_obs. Qed.
Print Assumptions C28_trap_entry_marks.

(* whole steps.  A completed step that takes no interrupt is the fetch — one tracked read of the
   PC into the emptied observer — followed by the instruction the fetched word decodes to; the
   observer after the step is the observer after that instruction *)
Theorem C28_step_is_fetch_then_instruction : forall e s s' u,
  (forall v p, ~ takes_irq e s v p) -> step_inner e (upd_obs s []) = (s', inl u) ->
  step_in e s = (s', OOk) /\
  exists s1 w i s3,
    read_mem e (s_pc s) (default_ctx s) (after_poll e (upd_obs s [])) = (s1, inl w) /\
    decode (w_data w) = DOk i /\
    s_obs (after_fetch s1) = [(s_pc s, OBS_READ)] /\
    exec e i (after_fetch s1) = (s3, inl tt) /\
    s_obs s' = s_obs s3.
Proof. intros e s s' u NT E. split; [exact (step_in_of_inner e s s' u E)|exact (step_inner_decompose e s s' u NT E)]. Qed.
Print Assumptions C28_step_is_fetch_then_instruction.
(* ... hence, in terms of the state before the step.  [Completed e s s' u s1 w i]: machine [s] takes no
   interrupt, its step completes in [s'], the fetch read word [w] (leaving [s1]) and [w] decodes to [i] *)
Theorem C28_completed_def : forall e s s' u s1 w i,
  Completed e s s' u s1 w i <->
  (forall v p, ~ takes_irq e s v p) /\
  step_inner e (upd_obs s []) = (s', inl u) /\
  read_mem e (s_pc s) (default_ctx s) (after_poll e (upd_obs s [])) = (s1, inl w) /\
  decode (w_data w) = DOk i.
Proof. intros. reflexivity. Qed.
Print Assumptions C28_completed_def.
Theorem C28_step_no_operand : forall e s s' u s1 w i, Completed e s s' u s1 w i ->
  no_mem_operand i = true -> s_obs s' = [(s_pc s, OBS_READ)].
Proof. exact step_obs_no_operand. Qed.
Print Assumptions C28_step_no_operand.
Theorem C28_step_ld : forall e s s' u s1 w dr off, Completed e s s' u s1 w (SLD dr off) ->
  s_obs s' = obs_update [(s_pc s, OBS_READ)] (wrap16 (wrap16 (s_pc s + 1) + off)) OBS_READ.
Proof. exact step_obs_ld. Qed.
Print Assumptions C28_step_ld.
Theorem C28_step_ldr : forall e s s' u s1 w dr br off, Completed e s s' u s1 w (SLDR dr br off) ->
  s_obs s' = obs_update [(s_pc s, OBS_READ)] (wrap16 (w_data (rget (s_regs s) br) + off)) OBS_READ.
Proof. exact step_obs_ldr. Qed.
Print Assumptions C28_step_ldr.
Theorem C28_step_st : forall e s s' u s1 w sr off, Completed e s s' u s1 w (SST sr off) ->
  (IO_START <=? s_pc s) = false ->
  let ea := wrap16 (wrap16 (s_pc s + 1) + off) in
  (IO_START <=? ea) = false ->
  s_obs s' = let o := obs_update [(s_pc s, OBS_READ)] ea OBS_WRITTEN in
             if word_eqb (mget (s_mem s) ea) (rget (s_regs s) sr) then o else obs_update o ea OBS_MODIFIED.
Proof. exact step_obs_st. Qed.
Print Assumptions C28_step_st.
Theorem C28_step_str : forall e s s' u s1 w sr br off, Completed e s s' u s1 w (SSTR sr br off) ->
  (IO_START <=? s_pc s) = false ->
  let ea := wrap16 (w_data (rget (s_regs s) br) + off) in
  (IO_START <=? ea) = false ->
  s_obs s' = let o := obs_update [(s_pc s, OBS_READ)] ea OBS_WRITTEN in
             if word_eqb (mget (s_mem s) ea) (rget (s_regs s) sr) then o else obs_update o ea OBS_MODIFIED.
Proof. exact step_obs_str. Qed.
Print Assumptions C28_step_str.
Theorem C28_step_ldi : forall e s s' u s1 w dr off, Completed e s s' u s1 w (SLDI dr off) ->
  (IO_START <=? s_pc s) = false ->
  let pa := wrap16 (wrap16 (s_pc s + 1) + off) in
  (IO_START <=? pa) = false ->
  s_obs s' = obs_update (obs_update [(s_pc s, OBS_READ)] pa OBS_READ) (w_data (mget (s_mem s) pa)) OBS_READ.
Proof. exact step_obs_ldi. Qed.
Print Assumptions C28_step_ldi.
Theorem C28_step_sti : forall e s s' u s1 w sr off, Completed e s s' u s1 w (SSTI sr off) ->
  (IO_START <=? s_pc s) = false ->
  let pa := wrap16 (wrap16 (s_pc s + 1) + off) in
  (IO_START <=? pa) = false ->
  let ea := w_data (mget (s_mem s) pa) in
  (IO_START <=? ea) = false ->
  s_obs s' = let o := obs_update (obs_update [(s_pc s, OBS_READ)] pa OBS_READ) ea OBS_WRITTEN in
             if word_eqb (mget (s_mem s) ea) (rget (s_regs s) sr) then o else obs_update o ea OBS_MODIFIED.
Proof. exact step_obs_sti. Qed.
Print Assumptions C28_step_sti.
Theorem C28_step_rti : forall e s s' u s1 w, Completed e s s' u s1 w SRTI ->
  let sp := w_data (rget (s_regs s) 6) in
  s_obs s' = obs_update (obs_update [(s_pc s, OBS_READ)] sp OBS_READ) (wrap16 (sp + 1)) OBS_READ.
Proof. exact step_obs_rti. Qed.
Print Assumptions C28_step_rti.
(* a TRAP that enters the OS (real traps, or a vector without virtual short-cut): fetch, two pushes, vector read *)
Theorem C28_step_trap : forall e s s' u s1 w v, Completed e s s' u s1 w (STRAP v) ->
  List.length (s_regs s) = 8%nat -> (IO_START <=? s_pc s) = false ->
  let a1 := wrap16 (entry_sp s - 1) in let a2 := wrap16 (entry_sp s - 2) in
  (IO_START <=? a1) = false -> (IO_START <=? a2) = false -> (IO_START <=? v) = false ->
  s_obs s' = obs_update (wmark (wmark [(s_pc s, OBS_READ)] a1 (mget (s_mem s) a1) (new_init (s_psr s)))
                                a2 (mget (s_mem s) a2) (new_init (wrap16 (s_pc s + 1)))) v OBS_READ.
Proof. exact step_obs_trap. Qed.
Print Assumptions C28_step_trap.
(* a step that takes an interrupt: nothing is fetched; the observer holds exactly the entry's marks *)
Theorem C28_step_interrupt : forall e s s' u v p,
  List.length (s_regs s) = 8%nat -> takes_irq e s v p ->
  step_inner e (upd_obs s []) = (s', inl u) ->
  let a1 := wrap16 (entry_sp s - 1) in let a2 := wrap16 (entry_sp s - 2) in
  (IO_START <=? a1) = false -> (IO_START <=? a2) = false -> (IO_START <=? 256 + v) = false ->
  s_obs s' = obs_update (wmark (wmark [] a1 (mget (s_mem s) a1) (new_init (s_psr s)))
                                a2 (mget (s_mem s) a2) (new_init (s_pc s))) (256 + v) OBS_READ.
Proof. exact step_obs_interrupt. Qed.
Print Assumptions C28_step_interrupt.
(* non-vacuity of the step theorems: a user-mode machine that executes `ST R0, #1` at x3000 with R0 = 5
   over a zero word takes no interrupt, completes the step, and ends with exactly READ at x3000 and
   WRITTEN+MODIFIED at x3002 *)
Theorem C28_step_example :
  (forall v p, ~ takes_irq ex_env ex_st_state v p) /\
  (exists s', step_inner ex_env (upd_obs ex_st_state []) = (s', inl tt) /\
              step_in ex_env ex_st_state = (s', OOk) /\
              (exists s1 w, Completed ex_env ex_st_state s' tt s1 w (SST 0 1)) /\
              s_obs s' = [(12288, OBS_READ); (12290, Z.lor OBS_WRITTEN OBS_MODIFIED)] /\
              mget (s_mem s') 12290 = new_init 5).
Proof. exact ex_st_step. Qed.
Print Assumptions C28_step_example.
Theorem C28_cleared_every_step : forall e s, step_in e s = step_in e (upd_obs s []).
Proof. reflexivity. Qed.
Print Assumptions C28_cleared_every_step.
