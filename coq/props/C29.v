(* C29 — Loading places exactly the object image into a fresh machine.
   Only statements here; proofs live in proofs/LoadProofs.v.  The vocabulary of the statements
   (block, chunk_at, image, blocks_ok, disjoint_blocks) is spec/ObjImage.v: what an object file
   says about an address, written without reference to the loader. *)
From Coq Require Import ZArith List Bool.
From Gen Require Import OsImage.
From Model Require Import Word Sim Load.
From Spec Require Import ObjImage.
From Proofs Require Import Ranges LoadProofs.
Import ListNotations.
Open Scope Z_scope.

(* One run of words written at [start] (wrapping at xFFFF): every address holds the initialised
   value, loses its initialisation keeping its data, or is untouched, according to its position. *)
Theorem C29_write_chunk_spec : forall c m start a,
  0 <= start < 65536 -> Z.of_nat (length c) <= 65536 -> 0 <= a < 65536 ->
  mget (write_chunk m start c) a =
  match chunk_at start c a with
  | Some (Some v) => new_init v
  | Some None => clear_init (mget m a)
  | None => mget m a
  end.
Proof. exact write_chunk_spec. Qed.
Print Assumptions C29_write_chunk_spec.

(* A block of fewer than 65536 words is copied (no panic) and memory is its pointwise image. *)
Theorem C29_copy_obj_block_spec : forall m s data a,
  0 <= s < 65536 -> Z.of_nat (length data) < 65536 -> 0 <= a < 65536 ->
  exists m', copy_obj_block m s data = Some m' /\
    mget m' a = match chunk_at s data a with
                | Some (Some v) => new_init v
                | Some None => clear_init (mget m a)
                | None => mget m a
                end.
Proof. exact copy_obj_block_spec. Qed.
Print Assumptions C29_copy_obj_block_spec.

(* Loading an object without externals whose blocks are pairwise disjoint and shorter than 65536
   words, into ANY machine state: exactly the file's initialised words are set, its reserved
   words are marked uninitialised keeping their data, every other word is unchanged; registers,
   PC, PSR, saved SP, frames, counters, MCR, flags, mappings and devices are unchanged. *)
Theorem C29_load : forall s bs, blocks_ok bs -> disjoint_blocks bs ->
  exists s', load_obj s bs false = LoadOk s' /\
    (forall a, 0 <= a < 65536 ->
       mget (s_mem s') a = match image bs a with
                           | Some (Some v) => new_init v
                           | Some None => clear_init (mget (s_mem s) a)
                           | None => mget (s_mem s) a
                           end) /\
    s_regs s' = s_regs s /\ s_pc s' = s_pc s /\ s_psr s' = s_psr s /\ s_saved_sp s' = s_saved_sp s /\
    s_frame_no s' = s_frame_no s /\ s_frames s' = s_frames s /\ s_sr_defns s' = s_sr_defns s /\
    s_instrs s' = s_instrs s /\ s_prefetch s' = s_prefetch s /\ s_obs s' = s_obs s /\
    s_mcr s' = s_mcr s /\ s_flags s' = s_flags s /\ s_ireg s' = s_ireg s /\ s_devs s' = s_devs s.
Proof. exact load_obj_spec. Qed.
Print Assumptions C29_load.

(* Without disjointness (hand-written files): blocks take effect one after the other. *)
Theorem C29_load_overlapping : forall s bs, blocks_ok bs ->
  exists s', load_obj s bs false = LoadOk s' /\
    forall a, 0 <= a < 65536 -> mget (s_mem s') a = apply_blocks bs a (mget (s_mem s) a).
Proof. exact load_obj_spec_seq. Qed.
Print Assumptions C29_load_overlapping.

(* An object with an unresolved external is refused (the machine is not touched: there is no
   resulting state). *)
Theorem C29_load_unresolved : forall s bs, load_obj s bs true = LoadUnresolved.
Proof. exact load_obj_unresolved. Qed.
Print Assumptions C29_load_unresolved.

(* Blocks shorter than 65536 words never make the loader panic (no condition on the starts,
   on overlaps or on externals). *)
Theorem C29_no_panic : forall s bs he,
  Forall (fun b : block => Z.of_nat (length (snd b)) < 65536) bs -> load_obj s bs he <> LoadPanic.
Proof. exact load_obj_no_panic. Qed.
Print Assumptions C29_no_panic.

(* Exactly when the loader panics: the object has no external and some block contains a run of
   65536 or more consecutive initialised words.  (No public API can build such a block: both file
   formats store block lengths in 16 bits and the assembler refuses blocks that wrap.) *)
Theorem C29_panic_iff : forall s bs he,
  load_obj s bs he = LoadPanic <->
  he = false /\ Exists (fun b : block => Exists big_init_chunk (chunk_by_some (snd b))) bs.
Proof. exact load_obj_panic_iff. Qed.
Print Assumptions C29_panic_iff.

(* A new simulator, for every flag setting and fill value: the OS image (today's os_blocks,
   regenerated from the crate) at its addresses, initialised zeros in xFE00..xFFFF, the
   uninitialised fill value elsewhere; PC = x3000, PSR = x8002. *)
Theorem C29_new : forall fl fill,
  (forall a, 0 <= a < 65536 ->
     mget (s_mem (new_sim fl fill)) a =
     match image os_blocks a with
     | Some (Some v) => new_init v
     | Some None => new_uninit fill
     | None => if 65024 <=? a then new_init 0 else new_uninit fill
     end) /\
  (forall a, 65024 <= a < 65536 -> mget (s_mem (new_sim fl fill)) a = new_init 0) /\
  s_pc (new_sim fl fill) = 12288 /\ s_psr (new_sim fl fill) = 32770.
Proof. exact new_sim_spec. Qed.
Print Assumptions C29_new.

(* The hypotheses of C29_load hold for the OS image itself (this is how C29_new is obtained) ... *)
Theorem C29_os_image_wellformed : blocks_ok os_blocks /\ disjoint_blocks os_blocks /\
  (forall a, 65024 <= a < 65536 -> image os_blocks a = None).
Proof. exact (conj os_blocks_ok (conj os_blocks_disjoint os_blocks_below_io)). Qed.
Print Assumptions C29_os_image_wellformed.

(* ... and for an object with a block at x0000, one ending at xFE00 and reserved words, and for
   one with a block that wraps around xFFFF (only a hand-written file can contain that). *)
Definition ex_obj : list block :=
  [ (0, [Some 1; None; Some 3]); (65020, [None; None; Some 7; Some 8]) ].
Definition ex_wrap : list block :=
  [ (3, [Some 1]); (65534, [Some 10; None; None; Some 13]) ].
Example C29_ex_hypotheses : blocks_ok ex_obj /\ disjoint_blocks ex_obj /\ blocks_ok ex_wrap /\ disjoint_blocks ex_wrap.
Proof.
  repeat split; try (apply block_okb_ok; vm_compute; reflexivity); apply disjoint_by_sweep; vm_compute; reflexivity.
Qed.
Example C29_ex_image :
  image ex_obj 0 = Some (Some 1) /\ image ex_obj 1 = Some None /\ image ex_obj 3 = None /\
  image ex_obj 65023 = Some (Some 8) /\ image ex_obj 65024 = None /\
  image ex_wrap 65534 = Some (Some 10) /\ image ex_wrap 65535 = Some None /\
  image ex_wrap 0 = Some None /\ image ex_wrap 1 = Some (Some 13) /\ image ex_wrap 2 = None /\
  (* a wrapping block that reaches an address of another block is not disjoint from it: *)
  cover_count [ (0, [Some 1]); (65535, [Some 2; Some 3]) ] 0 = 2.
Proof. vm_compute. repeat split. Qed.
