(* C30 — Reset restores a fresh machine and keeps configuration.
   Only statements here; proofs live in proofs/LoadProofs.v.
   [reset e s fill]: e says which device buffers are locked by another thread and gives the
   timers' new draws; fill is the value of the Known initialisation strategy in the flags.
   Breakpoints and the pause status of the last run-style call are not fields of the model's [sim]
   record (they only matter to `run`); they are the [session] of model/Session.v, tied to the
   implementation by the `session.reset` correspondence cases of harness area load. *)
From Coq Require Import ZArith List Bool.
From Model Require Import Word Sim Load Run Session.
From Proofs Require Import LoadProofs SessionProofs.
Import ListNotations.
Open Scope Z_scope.

(* After ANY state s: every architectural field of the reset machine equals that of a new
   simulator with the same flags — memory (as a whole, hence at every address), registers, PC,
   PSR, saved SP, frame depth and frames, subroutine definitions, allocation table, instruction
   count, prefetch flag, access observer. *)
Theorem C30_reset : forall e s fill,
  let r := reset e s fill in let n := new_sim (s_flags s) fill in
  s_mem r = s_mem n /\ s_regs r = s_regs n /\ s_pc r = s_pc n /\ s_psr r = s_psr n /\
  s_saved_sp r = s_saved_sp n /\ s_frame_no r = s_frame_no n /\ s_frames r = s_frames n /\
  s_sr_defns r = s_sr_defns n /\ s_alloca r = s_alloca n /\ s_instrs r = s_instrs n /\
  s_prefetch r = s_prefetch n /\ s_obs r = s_obs n.
Proof. exact reset_arch. Qed.
Print Assumptions C30_reset.

Theorem C30_reset_memory_pointwise : forall e s fill a,
  mget (s_mem (reset e s fill)) a = mget (s_mem (new_sim (s_flags s) fill)) a.
Proof. exact reset_mem_pointwise. Qed.
Print Assumptions C30_reset_memory_pointwise.

(* Kept: flags, the MCR cell (with its value), the internal-register mappings, and the device
   list — same length, same kinds, same parameters; each device has received io_reset
   (dev_reset_rel: keyboard queue cleared unless locked and interrupts disabled, display buffer
   cleared unless locked, timers redrawn with their range/vector/priority/enabled kept, scripted
   interrupt sources untouched). *)
Theorem C30_keeps : forall e s fill,
  let r := reset e s fill in
  s_flags r = s_flags s /\ s_mcr r = s_mcr s /\ s_ireg r = s_ireg s /\
  s_devs r = reset_devs e (s_devs s) (e_draws e) /\
  Forall2 (dev_reset_rel e) (s_devs s) (s_devs r).
Proof. exact reset_keeps. Qed.
Print Assumptions C30_keeps.

(* non-vacuity: a machine that is far from fresh *)
Example C30_ex :
  let s := upd_pc (upd_regs (upd_mem (new_sim (mkFlags true false true false) 7)
                      (mset (s_mem (new_sim (mkFlags true false true false) 7)) 12288 (new_init 61477)))
                    (repeat (new_init 1) 8)) 17 in
  let r := reset (mkEnv false false []) (upd_devs s [DNull; DKb [65; 66] true; DDs [67]]) 9 in
  s_pc r = 12288 /\ mget (s_mem r) 12288 = new_uninit 9 /\ rget (s_regs r) 3 = new_uninit 9 /\
  s_devs r = [DNull; DKb [] false; DDs []] /\ s_flags r = mkFlags true false true false.
Proof. vm_compute. repeat split. Qed.

(* the non-machine part: breakpoints are kept (and stop runs exactly as before), the halt / breakpoint
   status is that of a new simulator (neither) *)
Theorem C30_session_keeps_breakpoints : forall e fill ss s,
  ss_bps (session_reset e fill ss) = ss_bps ss /\
  ss_sim (session_reset e fill ss) = reset e (ss_sim ss) fill /\
  any_bp (ss_bps (session_reset e fill ss)) s = any_bp (ss_bps ss) s.
Proof. intros. repeat split. Qed.
Print Assumptions C30_session_keeps_breakpoints.
Theorem C30_session_pause_status : forall e fill ss,
  ss_pause (session_reset e fill ss) = ss_pause (session_new (s_flags (ss_sim ss)) fill) /\
  hit_halt (ss_pause (session_reset e fill ss)) = false /\
  hit_breakpoint (ss_pause (session_reset e fill ss)) = false.
Proof. exact session_reset_pause. Qed.
Print Assumptions C30_session_pause_status.
