(* C31 — Seeded simulations are reproducible.
   Only statements here; proofs live in proofs/LoadProofs.v.

   What is proved and what is not.  In the model everything the implementation draws from a random
   generator is an INPUT: the fill value of the initial machine ([fill], a Known strategy) and the
   timer draws ([e_draws] of every step's [env]).  The model is therefore a function of
   (initial state, list of envs): two runs given the same inputs agree at every step
   (C31_deterministic — immediate, stated for the record) and what is observed up to a step does
   not depend on later inputs (C31_history_prefix).  That `StdRng::seed_from_u64`, `random` and
   `random_range` return the same sequence for the same seed is a property of the `rand` crate
   and lies outside the model; it is covered by the harness's two-run oracle (area load: two
   independent simulators from the same seeds compared after every step) and by replaying the
   observed draws through the model (`sim.run` cases of the same area).
   The second sentence of the property (Known strategy) is proved in full: C31_known_init. *)
From Coq Require Import ZArith List Bool.
From Gen Require Import OsImage.
From Model Require Import Word Sim Load SimWire.
From Spec Require Import ObjImage.
From Proofs Require Import LoadProofs.
Import ListNotations.
Open Scope Z_scope.

(* A Known strategy initialises every register and every memory word outside the OS image and
   the I/O page to the given value, uninitialised. *)
Theorem C31_known_init : forall fl fill,
  (forall r, 0 <= r < 8 -> rget (s_regs (new_sim fl fill)) r = new_uninit fill) /\
  (forall a, 0 <= a < 65024 -> image os_blocks a = None ->
     mget (s_mem (new_sim fl fill)) a = new_uninit fill).
Proof. exact known_init. Qed.
Print Assumptions C31_known_init.

(* Two runs of the model from the same state with the same inputs produce the same final state and
   the same observation after every step. *)
Theorem C31_deterministic : forall s1 s2 es1 es2, s1 = s2 -> es1 = es2 ->
  run_steps s1 es1 [] = run_steps s2 es2 [].
Proof. intros s1 s2 es1 es2 -> ->. reflexivity. Qed.
Print Assumptions C31_deterministic.

(* The history up to a step is a function of the inputs up to that step. *)
Theorem C31_history_prefix : forall es1 es2 s,
  exists tl, snd (run_steps s (es1 ++ es2) []) = snd (run_steps s es1 []) ++ tl.
Proof. exact run_steps_prefix. Qed.
Print Assumptions C31_history_prefix.

(* non-vacuity: there are addresses outside the OS image below the I/O page (user space) *)
Example C31_ex : image os_blocks 12288 = None /\ image os_blocks 65023 = None /\
  mget (s_mem (new_sim (mkFlags false false false false) 4660)) 12288 = new_uninit 4660.
Proof. vm_compute. repeat split. Qed.
