(* C32 — Memory-mapped I/O reaches exactly the mapped register or device.
   Only statements here; proofs live in proofs/DevHandlerProofs.v.
   Model: model/DevHandler.v (DeviceHandler, internal-register map, MMIO arms of read_mem/write_mem).
   Specification: spec/PortSpec.v — a table (register map, port -> owner, id counter) written from
   the property text.

   Every theorem is about ALL histories: [l] is an arbitrary list of operations (add_device,
   remove_device, set_keyboard, set_display, mmap_internal, munmap_internal, read, write, io_reset,
   poll_interrupt) run on a fresh machine, for an arbitrary device type D with arbitrary behaviour
   [ops] and arbitrary initial memory m0.
     reach ops m0 l    the machine after the history      results ops m0 l   what the operations returned
     table l           the port table after the same history *)
From Coq Require Import ZArith List Bool Lia Sorted.
From Model Require Import Tree DevHandler.
From Spec Require Import PortSpec.
From Proofs Require Import DevHandlerProofs.
Import ListNotations.
Open Scope Z_scope.

(* Invariant: at least the three fixed slots, ids fit 16 bits, slot 0 is the null device, every
   mapped id is a slot, only I/O addresses are mapped, the keyboard ports xFE00/xFE02 belong to slot
   1 and the display ports xFE04/xFE06 to slot 2 and nothing else does; and no operation panics
   (the `self.devices[i]` indexings are in range). *)
Theorem C32_invariant : forall (D : Type) (ops : dev_ops D) m0 l,
  h_inv (b_h (reach ops m0 l)) /\ ~ In RPanic (results ops m0 l).
Proof. intros D ops m0 l. destruct (reach_ok ops m0 l) as (H1 & _ & _ & H4). split; assumption. Qed.
Print Assumptions C32_invariant.

(* Refinement: after every history the model agrees with the port table — same register mappings,
   same owner of every port (0 nobody, 1 keyboard, 2 display, id >= 3 the added device), same next
   id — and every add_device / mmap_internal / munmap_internal returned what the table says. *)
Theorem C32_refines : forall (D : Type) (ops : dev_ops D) m0 l,
  refines (reach ops m0 l) (table l) /\
  map abstract (results ops m0 l) = snd (pt_run (pt_init regs0) l).
Proof. intros D ops m0 l. destruct (reach_ok ops m0 l) as (_ & H2 & H3 & _). split; assumption. Qed.
Print Assumptions C32_refines.

(* Dispatch: a read at any 16-bit address reaches the internal register mapped there if there is
   one, otherwise the device in the slot of the port's owner, otherwise nothing ([read_via] spells
   out each case: register value / device answer also stored in the memory word; no answer or
   nothing there: the memory word). *)
Theorem C32_dispatch_read : forall (D : Type) (ops : dev_ops D) m0 l a eff,
  0 <= a <= 65535 ->
  bus_read ops (reach ops m0 l) a eff = Some (read_via ops (reach ops m0 l) (pt_target (table l) a) a eff).
Proof.
  intros D ops m0 l a eff Ha. destruct (reach_ok ops m0 l) as (H1 & H2 & _).
  apply bus_read_dispatch; assumption.
Qed.
Print Assumptions C32_dispatch_read.

Theorem C32_dispatch_write : forall (D : Type) (ops : dev_ops D) m0 l a data,
  0 <= a <= 65535 ->
  bus_write ops (reach ops m0 l) a data = Some (write_via ops (reach ops m0 l) (pt_target (table l) a) a data).
Proof.
  intros D ops m0 l a data Ha. destruct (reach_ok ops m0 l) as (H1 & H2 & _).
  apply bus_write_dispatch; assumption.
Qed.
Print Assumptions C32_dispatch_write.

(* Writes to unowned ports leave memory — and everything else — unchanged. *)
Theorem C32_unowned_write_changes_nothing : forall (D : Type) (ops : dev_ops D) m0 l a data,
  0 <= a <= 65535 -> pt_target (table l) a = ToNothing ->
  bus_write ops (reach ops m0 l) a data = Some (reach ops m0 l, false).
Proof.
  intros D ops m0 l a data Ha Ht. rewrite (C32_dispatch_write D ops m0 l a data Ha), Ht. reflexivity.
Qed.
Print Assumptions C32_unowned_write_changes_nothing.

(* Adding a device succeeds exactly when every requested port is an I/O address not owned by a
   device (keyboard and display count) — and the 16-bit ids have not run out, the documented limit. *)
Theorem C32_add_iff : forall (D : Type) (ops : dev_ops D) m0 l d addrs,
  snd (add_device (b_h (reach ops m0 l)) d addrs) <> None <->
  (pt_next (table l) <= 65535 /\
   forall p, In p addrs -> io_addr p = true /\ pt_owner (table l) p = Nobody).
Proof. intros D. exact (add_iff (D := D)). Qed.
Print Assumptions C32_add_iff.

(* ... and then it gets the fresh id, is appended as a new slot, and owns exactly the requested
   ports in addition. *)
Theorem C32_add_effect : forall (D : Type) (ops : dev_ops D) m0 l d addrs h' id,
  add_device (b_h (reach ops m0 l)) d addrs = (h', Some id) ->
  id = pt_next (table l) /\ h_devs h' = h_devs (b_h (reach ops m0 l)) ++ [d] /\
  forall p, h_ports h' p = if mem_z p addrs then id else h_ports (b_h (reach ops m0 l)) p.
Proof. intros D. exact (add_effect (D := D)). Qed.
Print Assumptions C32_add_effect.

(* Removing an added device (id >= 3) frees exactly the ports it owned; removing the keyboard or
   the display (or slot 0, or an id never given out) changes no port: their ports stay reserved. *)
Theorem C32_remove_frees : forall (D : Type) (ops : dev_ops D) m0 l id p,
  h_ports (remove_device (b_h (reach ops m0 l)) id) p =
  if (3 <=? id) && (h_ports (b_h (reach ops m0 l)) p =? id) then 0 else h_ports (b_h (reach ops m0 l)) p.
Proof. intros D ops m0 l id p. exact (remove_frees ops m0 l id p). Qed.
Print Assumptions C32_remove_frees.

(* Device ids are never reused: over any history the ids returned by successful additions are
   strictly increasing, and all are >= 3. *)
Theorem C32_ids_fresh : forall (D : Type) (ops : dev_ops D) m0 l,
  StronglySorted Z.lt (added_ids (results ops m0 l)) /\
  Forall (fun id => 3 <= id) (added_ids (results ops m0 l)).
Proof. intros D. exact (ids_fresh (D := D)). Qed.
Print Assumptions C32_ids_fresh.

(* non-vacuity on recording devices: add a device on xFE10, map PC at xFE12, remove the device, add
   another on the freed port and on the (register-mapped) MCR address.  The table then says:
   xFE10 -> slot 4, xFE12 -> register, xFFFE -> register (the mapping wins), xFE14 -> nothing,
   xFE00 -> slot 1; the ids were 3 then 4. *)
Example C32_ex :
  let dev := fun tag => Some (mk_rdev tag true true None 0 []) in
  let l := [BAdd (dev 1) [65040]; BMmap 65042 RegPC; BRemove 3; BAdd (dev 4) [65040; 65534]] in
  pt_target (table l) 65040 = ToSlot 4 /\ pt_target (table l) 65042 = ToReg RegPC /\
  pt_target (table l) 65534 = ToReg RegMCR /\ pt_target (table l) 65044 = ToNothing /\
  pt_target (table l) 65024 = ToSlot 1 /\ pt_target (table l) 12288 = ToMemory /\
  added_ids (results rdev_ops (fun _ => 0) l) = [3; 4] /\
  snd (add_device (b_h (reach rdev_ops (fun _ => 0) l)) (dev 5) [65040]) = None /\
  snd (add_device (b_h (reach rdev_ops (fun _ => 0) l)) (dev 5) [65044]) = Some 5.
Proof. vm_compute. repeat split. Qed.
