(* C33 — keyboard and display deliver bytes exactly once under lock contention.
   Statements only; proofs in proofs/LockProofs.v (on top of OsProofs.v / SimStep.v).

   A lock pattern is [sc : nat -> env]: [e_kb_locked (sc t)] / [e_ds_locked (sc t)] say whether another
   thread holds the keyboard / display buffer lock during the t-th instruction (trusted abstraction:
   one lock state per instruction, no preemption inside an instruction).
   [getc_pattern sc t d lockr]: for the GETC call starting at instruction t, the first d KBSR polls
   find the keyboard locked, the next finds it free, and [lockr] is the lock state during the KBDR
   read two instructions later.  [out_pattern sc t d lockw]: same for DSR polls and the DDR write.
   THE KNOWN CLASS (DESIGN.md section 9 #14): lockr = true or lockw = true, i.e. the lock is held
   at the data access that follows a ready status read.  The property fails exactly there. *)
From Coq Require Import ZArith List Bool Lia.
From Gen Require Import Constants OsImage.
From Model Require Import Tree Bits Word Instr Sim Load.
From Proofs Require Import SimStep OsProofs OsContracts LockProofs.
Import ListNotations.
Open Scope Z_scope.

(* The property as stated is false on the faithful model: two concrete eventually-free patterns
   (replayed on the implementation by harness area iolock, fixed cases `witness_kb`/`witness_ds`).
   Program: LD R1,#1 ; GETC ; OUT ; ADD R1,R1,#-1 ; BRp ; HALT with byte 65 queued.
   Free pattern: 65 received and shown once.  Keyboard lock during instruction 4 only (the KBDR read
   after the ready KBSR poll): the program receives 0, 65 is never consumed, a spurious 0 is shown.
   Display lock during instruction 13 only (the DDR write after the ready DSR poll): 65 is never shown. *)
Theorem C33_refuted :
  (let r := run (fun _ => free_env) 0 17 wit_state in
   snd r = OOk /\ s_pc (fst r) = 12293 /\ s_devs (fst r) = kdevs [] [65]) /\
  eventually_free wit_kb /\
  (let r := run wit_kb 0 17 wit_state in
   snd r = OOk /\ s_pc (fst r) = 12293 /\ s_devs (fst r) = kdevs [65] [0] /\ rget (s_regs (fst r)) 0 = new_init 0) /\
  eventually_free wit_ds /\
  (let r := run wit_ds 0 17 wit_state in
   snd r = OOk /\ s_pc (fst r) = 12293 /\ s_devs (fst r) = kdevs [] [] /\ rget (s_regs (fst r)) 0 = new_init 65).
Proof. exact (conj wit_free_run (conj wit_kb_eventually_free (conj wit_kb_run (conj wit_ds_eventually_free wit_ds_run)))). Qed.
Print Assumptions C33_refuted.

(* Outside the class, one GETC: whatever the pattern does at the polls (any number d of locked
   polls, by induction on d) the head of the queue is returned in R0 and exactly it is consumed *)
Theorem C33_outside_known_class_getc : forall s sp ch q buf sc t d,
  user_ready s sp (ch :: q) buf -> OS_END + 2 <= sp <= USER_START ->
  mget (s_mem s) (s_pc s) = new_init 61472 ->
  getc_pattern sc t d false ->
  exists s', run sc t (2 * d + 5) s = (s', OOk) /\ s_pc s' = wrap16 (s_pc s + 1) /\
             (exists r1 r2 r3 r4 r5 r6 r7 x0, s_regs s = [x0; r1; r2; r3; r4; r5; r6; r7] /\
                s_regs s' = [new_init ch; r1; r2; r3; r4; r5; r6; r7]) /\
             s_devs s' = kdevs q buf /\ mget (s_mem s') KBDR = new_init ch /\ same_user_view s s'.
Proof. intros s sp ch q buf sc t d. exact (getc_under_locks s sp ch q buf sc t d false). Qed.
Print Assumptions C33_outside_known_class_getc.

(* Outside the class, one OUT: the byte appears exactly once *)
Theorem C33_outside_known_class_out : forall s sp q buf sc t d,
  user_ready s sp q buf -> OS_END + 3 <= sp <= USER_START ->
  mget (s_mem s) (s_pc s) = new_init 61473 ->
  out_pattern sc t d false ->
  exists s', run sc t (2 * d + 9) s = (s', OOk) /\ s_pc s' = wrap16 (s_pc s + 1) /\ s_regs s' = s_regs s /\
             s_devs s' = kdevs q (buf ++ [w_data (rget (s_regs s) 0) mod 256]) /\ same_user_view s s'.
Proof. intros s sp q buf sc t d. exact (out_under_locks s sp q buf sc t d false). Qed.
Print Assumptions C33_outside_known_class_out.

(* Every pattern that is free from some instant on determines, for any number n of GETC;OUT
   iterations from any instant t, the poll counts and the lock bits at the data accesses
   ([matches]); so the theorems below speak about all such patterns *)
Theorem C33_every_pattern_has_its_class_bits : forall sc, eventually_free sc ->
  forall n t, exists cs, length cs = n /\ matches sc t cs.
Proof. exact matches_exists. Qed.
Print Assumptions C33_every_pattern_has_its_class_bits.

(* Outside the class, the echo loop  x3001 GETC ; OUT ; ADD R1,R1,#-1 ; BRp x3001  with R1 = number
   of queued bytes (1..32767): every queued byte is received exactly once in order (the queue ends
   empty) and shown exactly once in order.  By induction on the iterations. *)
Theorem C33_outside_known_class : forall s sp q buf sc t cs,
  user_ready s sp q buf -> OS_END + 3 <= sp <= USER_START -> psr16 (s_psr s) ->
  s_pc s = 12289 -> echo_prog (s_mem s) ->
  rget (s_regs s) 1 = new_init (Z.of_nat (length q)) ->
  (1 <= length q)%nat -> Z.of_nat (length q) <= 32767 -> length cs = length q ->
  matches sc t cs -> bits_free cs ->
  exists s', run sc t (total_len cs) s = (s', OOk) /\ s_pc s' = 12293 /\
             s_devs s' = kdevs [] (buf ++ map (fun c => c mod 256) q) /\
             (forall a, in_user a = true -> mget (s_mem s') a = mget (s_mem s) a) /\ os_mem (s_mem s').
Proof. exact echo_exactly_once. Qed.
Print Assumptions C33_outside_known_class.

(* Inside the class: exactly what is delivered.  A locked KBDR read returns the last word read
   from KBDR before (the memory mirror, initially 0) and consumes nothing; a locked DDR write
   drops that byte; nothing else is lost or duplicated.  [echo_spec] is that function. *)
Theorem C33_characterise_getc : forall s sp ch q buf sc t d,
  user_ready s sp (ch :: q) buf -> OS_END + 2 <= sp <= USER_START ->
  mget (s_mem s) (s_pc s) = new_init 61472 ->
  getc_pattern sc t d true ->
  exists s', run sc t (2 * d + 5) s = (s', OOk) /\ s_pc s' = wrap16 (s_pc s + 1) /\
             (exists r1 r2 r3 r4 r5 r6 r7 x0, s_regs s = [x0; r1; r2; r3; r4; r5; r6; r7] /\
                s_regs s' = [mget (s_mem s) KBDR; r1; r2; r3; r4; r5; r6; r7]) /\
             s_devs s' = kdevs (ch :: q) buf /\ mget (s_mem s') KBDR = mget (s_mem s) KBDR /\ same_user_view s s'.
Proof. intros s sp ch q buf sc t d. exact (getc_under_locks s sp ch q buf sc t d true). Qed.
Print Assumptions C33_characterise_getc.

Theorem C33_characterise_out : forall s sp q buf sc t d,
  user_ready s sp q buf -> OS_END + 3 <= sp <= USER_START ->
  mget (s_mem s) (s_pc s) = new_init 61473 ->
  out_pattern sc t d true ->
  exists s', run sc t (2 * d + 9) s = (s', OOk) /\ s_pc s' = wrap16 (s_pc s + 1) /\ s_regs s' = s_regs s /\
             s_devs s' = kdevs q buf /\ same_user_view s s'.
Proof. intros s sp q buf sc t d. exact (out_under_locks s sp q buf sc t d true). Qed.
Print Assumptions C33_characterise_out.

Theorem C33_characterise : forall s sp q buf sc t cs,
  user_ready s sp q buf -> OS_END + 3 <= sp <= USER_START -> psr16 (s_psr s) ->
  s_pc s = 12289 -> echo_prog (s_mem s) ->
  rget (s_regs s) 1 = new_init (Z.of_nat (length cs)) ->
  (1 <= length cs)%nat -> Z.of_nat (length cs) <= 32767 -> (length cs <= length q)%nat ->
  matches sc t cs ->
  exists s', run sc t (total_len cs) s = (s', OOk) /\ s_pc s' = 12293 /\
             s_devs s' = kdevs (snd (fst (echo_spec cs (mget (s_mem s) KBDR) q buf))) (snd (echo_spec cs (mget (s_mem s) KBDR) q buf)) /\
             rget (s_regs s') 0 = fst (fst (echo_spec cs (mget (s_mem s) KBDR) q buf)) /\
             (forall a, in_user a = true -> mget (s_mem s') a = mget (s_mem s) a) /\ os_mem (s_mem s').
Proof. exact echo_under_locks. Qed.
Print Assumptions C33_characterise.

(* the spec function on the two witnesses *)
Example C33_ex_spec :
  echo_spec [(0%nat, true, 0%nat, false)] (new_init 0) [65] [] = (new_init 0, [65], [0]) /\
  echo_spec [(0%nat, false, 0%nat, true)] (new_init 0) [65] [] = (new_init 65, [], []) /\
  echo_spec [(3%nat, false, 1%nat, false); (0%nat, false, 2%nat, false)] (new_init 0) [65; 66] [42] = (new_init 66, [], [42; 65; 66]).
Proof. vm_compute. repeat split. Qed.
