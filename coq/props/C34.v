(* C34 — Timer interrupts follow the configured interval.
   Only statements here; proofs live in proofs/TimerProofs.v.  Model: model/Timer.v (follows the
   repaired poll_interrupt: a fresh count of 0 fires on the poll that drew it).  Vocabulary of the
   statements: spec/TimerSpec.v ([gaps] = numbers of polls strictly between consecutive interrupts,
   [first_fire] = number of polls before the first one).

   The random draws are universally quantified: g k is what the k-th call of random_range returned.
   [timer_ok g t]: the range of t is not empty, its lower end is >= 0 (a u32) and every draw lies
   inside it — the contract of rand's random_range (trusted).  No lower bound 1 is needed: the
   statements hold for ranges that contain 0 as well. *)
From Coq Require Import ZArith List Bool Lia.
From Model Require Import Tree Timer.
From Spec Require Import TimerSpec.
From Proofs Require Import TimerProofs.
Import ListNotations.
Open Scope Z_scope.

(* While the range is unchanged, an enabled timer polled n times (any n, from any state, any draws
   within the range) never panics, and the number of polls strictly between two consecutive
   interrupts is always within the range. *)
Theorem C34_gap : forall g t n,
  timer_ok g t -> t_enabled t = true ->
  exists l t', timer_poll_n g t n = TOk (l, t') /\
               all_within (range_lo (t_range t)) (range_hi (t_range t)) (gaps l).
Proof. exact gap_within. Qed.
Print Assumptions C34_gap.

(* ... exactly c for an exact count c (c = 0 included: then every poll interrupts). *)
Theorem C34_gap_exact : forall g t n c,
  timer_ok g t -> t_enabled t = true -> range_lo (t_range t) = c -> range_hi (t_range t) = c ->
  exists l t', timer_poll_n g t n = TOk (l, t') /\ Forall (fun x => x = c) (gaps l).
Proof. exact gap_exact. Qed.
Print Assumptions C34_gap_exact.

(* Sharper: right after an interrupt (count 0) the next draw d IS the gap — exactly d polls
   without an interrupt, then one with, and one draw consumed.  So interrupts keep coming. *)
Theorem C34_gap_is_draw : forall g t,
  timer_ok g t -> t_enabled t = true -> t_time t = 0 ->
  timer_poll_n g t (S (Z.to_nat (g (t_drawn t)))) =
  TOk (repeat false (Z.to_nat (g (t_drawn t))) ++ [true], with_time t 0 (S (t_drawn t))).
Proof. exact gap_is_draw. Qed.
Print Assumptions C34_gap_is_draw.

(* An enabled timer whose count is within the range interrupts within the first hi + 1 polls
   (at most hi polls pass before the first interrupt). *)
Theorem C34_first : forall g t,
  timer_ok g t -> t_enabled t = true -> 0 <= t_time t <= range_hi (t_range t) ->
  exists l t', timer_poll_n g t (Z.to_nat (range_hi (t_range t) + 1)) = TOk (l, t') /\
               exists k, first_fire l = Some k /\ 0 <= k <= range_hi (t_range t).
Proof. exact first_within. Qed.
Print Assumptions C34_first.

(* The hypothesis of C34_first holds after creation followed by ANY history of polls, toggles,
   resets (reset_remaining, io_reset) and vector/priority changes: wherever such a history leaves
   the timer enabled, the next interrupt is at most hi + 1 polls away. *)
Theorem C34_first_after_enable_or_reset : forall g s e v p t0 ops,
  timer_new g s e v p = TOk t0 -> 0 <= range_lo (t_range t0) -> draws_ok g (t_range t0) ->
  Forall keeps_range ops -> t_enabled (timer_run_state g t0 ops) = true ->
  exists l t', timer_poll_n g (timer_run_state g t0 ops) (Z.to_nat (range_hi (t_range t0) + 1)) = TOk (l, t') /\
               exists k, first_fire l = Some k /\ 0 <= k <= range_hi (t_range t0).
Proof. exact first_after_history. Qed.
Print Assumptions C34_first_after_enable_or_reset.

(* A disabled timer never raises an interrupt, whatever else is done to it (any draws at all). *)
Theorem C34_disabled : forall g ops t,
  t_enabled t = false -> ~ In OEnable ops -> Forall quiet (timer_run g t ops).
Proof. exact disabled_quiet. Qed.
Print Assumptions C34_disabled.

(* Same draws, same sequence: what is observed from a timer (first count, then per operation the
   interrupt, the remaining count and the enabled flag) is a function of the constructor arguments,
   the history and the draws consumed — at most one per operation.  (That a seed fixes the draws
   is the determinism of StdRng, trusted; the harness checks it on pairs of runs.) *)
Theorem C34_function_of_draws : forall g g' s e v p ops,
  (forall k, (k <= length ops)%nat -> g k = g' k) ->
  observe g s e v p ops = observe g' s e v p ops.
Proof. exact observe_ext. Qed.
Print Assumptions C34_function_of_draws.

(* For the record, the transition as it was before the repair (poll_unrepaired: a fresh count of
   0 returns no interrupt) violates the gap statement for a range containing 0, and an exact count
   of 0 never fired. *)
Theorem C34_unrepaired_gap_refuted :
  exists g t n, timer_ok g t /\ t_enabled t = true /\
    ~ all_within (range_lo (t_range t)) (range_hi (t_range t)) (gaps (poll_n_unrepaired g t n)).
Proof. exact unrepaired_gap_refuted. Qed.
Print Assumptions C34_unrepaired_gap_refuted.

Theorem C34_unrepaired_exact0_silent : forall n t,
  t_range t = mk_srange 0 0 true -> t_enabled t = true -> t_time t = 0 ->
  poll_n_unrepaired (fun _ => 0) t n = repeat false n.
Proof. exact unrepaired_exact0_silent. Qed.
Print Assumptions C34_unrepaired_exact0_silent.

(* non-vacuity: a timer 0..=2 with draws 2,0,1,... meets the hypotheses; its gaps are the draws *)
Example C34_ex_hyp :
  let g := fun k => match k with 0%nat => 2 | 1%nat => 0 | 2%nat => 1 | _ => 2 end in
  exists t0, timer_new g (BIncl 0) (BExcl 3) 129 4 = TOk t0 /\ timer_ok g t0 /\
    t_enabled (timer_run_state g t0 [OEnable]) = true /\
    timer_poll_n g (timer_run_state g t0 [OEnable]) 9%nat =
      TOk ([false; true; true; false; true; false; false; true; false], mk_timer (mk_srange 0 3 false) 2 129 4 true 5) /\
    gaps [false; true; true; false; true; false; false; true; false] = [0; 1; 2].
Proof.
  eexists. split; [reflexivity|]. split; [|repeat split; reflexivity].
  split; [reflexivity|]. split; [cbn; lia|]. intros [|[|[|k]]]; reflexivity.
Qed.
