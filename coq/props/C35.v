(* C35 — Bounded offsets accept exactly the representable values.
   Only statements here; proofs live in proofs/OffsetProofs.v. *)
From Coq Require Import ZArith Bool.
From Model Require Import Bits Offset.
From Proofs Require Import OffsetProofs.
Open Scope Z_scope.

(* Creating an N-bit signed offset succeeds exactly on the two's-complement range, and holds the value. *)
Theorem C35_new_signed : forall n v, 1 <= n <= 16 -> -32768 <= v < 32768 ->
  new_s n v = if (- 2 ^ (n - 1) <=? v) && (v <? 2 ^ (n - 1)) then Ok v else Err (CannotFitSigned n).
Proof. exact new_s_spec. Qed.
Print Assumptions C35_new_signed.

Theorem C35_new_unsigned : forall n v, 1 <= n <= 16 -> 0 <= v < 65536 ->
  new_u n v = if (0 <=? v) && (v <? 2 ^ n) then Ok v else Err (CannotFitUnsigned n).
Proof. exact new_u_spec. Qed.
Print Assumptions C35_new_unsigned.

(* Truncating creation holds the sign / zero extension of the low N bits. *)
Theorem C35_trunc_signed : forall n v, 1 <= n <= 16 -> -32768 <= v < 32768 ->
  new_trunc_s n v = Ok (sext n v).
Proof. exact new_trunc_s_spec. Qed.
Print Assumptions C35_trunc_signed.

Theorem C35_trunc_unsigned : forall n v, 1 <= n <= 16 -> 0 <= v < 65536 ->
  new_trunc_u n v = Ok (v mod 2 ^ n).
Proof. exact new_trunc_u_spec. Qed.
Print Assumptions C35_trunc_unsigned.

(* sext is what its name says: representable in n bits and congruent to v modulo 2^n *)
Theorem C35_sext_characterised : forall n v, 1 <= n <= 16 ->
  (- 2 ^ (n - 1) <=? sext n v) && (sext n v <? 2 ^ (n - 1)) = true /\ (sext n v) mod 2 ^ n = v mod 2 ^ n.
Proof. intros n v H. split; [exact (sext_fits n v H) | exact (sext_low_bits n v H)]. Qed.
Print Assumptions C35_sext_characterised.

(* non-vacuity: the guards are met by concrete values on both sides of each limit *)
Example C35_ex1 : new_s 5 (-16) = Ok (-16) /\ new_s 5 (-17) = Err (CannotFitSigned 5) /\
                  new_u 8 255 = Ok 255 /\ new_u 8 256 = Err (CannotFitUnsigned 8) /\
                  new_trunc_s 5 16 = Ok (-16) /\ new_trunc_u 5 32 = Ok 0.
Proof. vm_compute. repeat split. Qed.
