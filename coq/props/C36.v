(* C36 — Printed statements reparse to the same statement.
   Statement only; proof in proofs/PrintParseProofs.v (structural: the printed text is a list of
   token pieces; one maximal-munch lemma per token class; induction over the label list, case
   analysis over all 25 instruction forms and 6 directives; induction over the string literal for
   the `{:?}` escaping).  Unbounded: any number of labels, any label names, any string length
   below the lexer's limit.
   [in_parser_image s]: registers 0..7, immediates/offsets inside their fields, BR condition codes
   1..7, label names that lex as labels (identifier rule, not a keyword, not register- or
   hex-like), string literals shorter than 65535 bytes — what `parse_ast` can return.
   [printable_strings s]: the string literal only uses printable ASCII, TAB, LF, CR, NUL.
   [shape_stmt] forgets source positions (label offsets and the statement span). *)
From Coq Require Import ZArith List Bool String.
From Model Require Import Tree Text Instr AsmAst Lexer Parser Print.
From Proofs Require Import PiecesProofs PrintParseProofs ImageProofs.
Import ListNotations.
Open Scope Z_scope.

Theorem C36_roundtrip : forall s, in_parser_image s = true -> printable_strings s = true ->
  exists s', parse_ast (print_stmt s) = POk [s'] /\ shape_stmt s' = shape_stmt s.
Proof. exact print_parse_roundtrip. Qed.
Print Assumptions C36_roundtrip.

(* the parser only produces statements of its image: [in_parser_image] is not an extra assumption *)
Theorem C36_parser_image : forall t l, parse_ast t = POk l -> forallb in_parser_image l = true.
Proof. exact parse_ast_image. Qed.
Print Assumptions C36_parser_image.

(* the property as stated: any statement the parser produced, printed and parsed again *)
Theorem C36_roundtrip_parsed : forall t l s, parse_ast t = POk l -> In s l -> printable_strings s = true ->
  exists s', parse_ast (print_stmt s) = POk [s'] /\ shape_stmt s' = shape_stmt s.
Proof.
  intros t l s Hp Hin Hs. apply C36_roundtrip; [|exact Hs].
  pose proof (parse_ast_image t l Hp) as H. rewrite forallb_forall in H. apply H. exact Hin.
Qed.
Print Assumptions C36_roundtrip_parsed.

(* the printed text is lexed into exactly the tokens of its pieces (canonical layout) *)
Theorem C36_printed_tokens : forall s, in_parser_image s = true -> printable_strings s = true ->
  lex (print_stmt s) = LexOk (toks_of 0 (stmt_pieces s)).
Proof.
  intros s H1 H2. unfold lex. rewrite LexerProofs.lex_with_at, print_stmt_pieces.
  apply lex_pieces. apply stmt_pieces_ok; assumption.
Qed.
Print Assumptions C36_printed_tokens.

(* the `{:?}` escaping of a string on the alphabet is undone by the string-literal scanner *)
Theorem C36_string_escape : forall v rest, forallb alpha_char v = true ->
  scan_str true (flat_map esc_debug v ++ 34 :: rest) = ScClosed v (byte_len (flat_map esc_debug v) + 1) rest.
Proof. exact scan_escaped. Qed.
Print Assumptions C36_string_escape.

(* hypotheses are satisfiable; a statement outside the alphabet does not round-trip *)
Example C36_ex :
  let s := mkStmt [mkLabel (zs "LOOP") 7; mkLabel (zs "x_1") 0] (NInstr (AADD 1 2 (Imm (-16)))) 3 9 in
  in_parser_image s = true /\ printable_strings s = true /\ print_stmt s = zs "LOOP x_1 ADD R1, R2, #-16" /\
  parse_ast (print_stmt s) = POk [mkStmt [mkLabel (zs "LOOP") 0; mkLabel (zs "x_1") 5] (NInstr (AADD 1 2 (Imm (-16)))) 9 25].
Proof. vm_compute. repeat split. Qed.
Example C36_ex_string :
  let s := mkStmt [] (NDir (DStringz [34; 92; 10; 0; 97])) 0 0 in
  in_parser_image s = true /\ printable_strings s = true /\
  print_stmt s = zs ".stringz ""\""\\\n\0a""" /\
  parse_ast (print_stmt s) = POk [mkStmt [] (NDir (DStringz [34; 92; 10; 0; 97])) 0 20].
Proof. vm_compute. repeat split. Qed.
Example C36_ex_outside :
  let s := mkStmt [] (NDir (DStringz [127])) 0 0 in
  printable_strings s = false /\ parse_ast (print_stmt s) = POk [mkStmt [] (NDir (DStringz (zs "\u{7f}"))) 0 17].
Proof. vm_compute. repeat split. Qed.
Example C36_ex_not_image :
  in_parser_image (mkStmt [mkLabel (zs "ADD") 0] (NInstr ARET) 0 0) = false /\
  in_parser_image (mkStmt [mkLabel (zs "R7") 0] (NInstr ARET) 0 0) = false /\
  in_parser_image (mkStmt [mkLabel (zs "xA") 0] (NInstr ARET) 0 0) = false /\
  in_parser_image (mkStmt [] (NInstr (AADD 8 0 (Imm 0))) 0 0) = false /\
  in_parser_image (mkStmt [] (NInstr (ABR 0 (POff 0))) 0 0) = false.
Proof. vm_compute. repeat split. Qed.
