(* IsaEncoding.v — which 16-bit words are canonical LC-3 encodings, written from the ISA's
   instruction-format table (Patt & Patel, App. A), independently of the decoder: opcode in
   bits 15..12; per opcode a must-be-zero mask (and for NOT a must-be-one mask). *)
From Coq Require Import ZArith Bool.
Open Scope Z_scope.

Definition isa_opcode (w : Z) : Z := w / 4096.

Inductive word_class := Canonical | Reserved | BadBits.

Definition classify (w : Z) : word_class :=
  let op := isa_opcode w in
  let zero (mask : Z) := if Z.land w mask =? 0 then Canonical else BadBits in
  if op =? 13 then Reserved
  else if (op =? 1) || (op =? 5) then         (* ADD/AND: register form has bits 4..3 = 00 *)
    if Z.testbit w 5 then Canonical else zero 24
  else if op =? 4 then                         (* JSR / JSRR: bit 11 selects; JSRR has 10..9 and 5..0 zero *)
    if Z.testbit w 11 then Canonical else zero 1599
  else if op =? 8 then zero 4095               (* RTI *)
  else if op =? 9 then                         (* NOT: bits 5..0 all ones *)
    if Z.land w 63 =? 63 then Canonical else BadBits
  else if op =? 12 then zero 3647              (* JMP/RET: 11..9 and 5..0 zero *)
  else if op =? 15 then zero 3840              (* TRAP: 11..8 zero *)
  else Canonical.
