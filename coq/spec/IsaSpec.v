(* IsaSpec.v — reference semantics of one LC-3 step over ARCHITECTURAL state only: register
   values, PC, PSR (raw word with field views), the other stack pointer, memory values, device
   state, MCR.  No initialisation masks, no strict mode, no frames, no observer, no counters.
   One clause per opcode as in Patt & Patel (3rd ed.) App. A.  Implementation-defined points,
   fixed here explicitly:
     * CC := Z on trap / interrupt / exception entry; the entry pushes PSR then PC on the
       supervisor stack (R6 after swapping with the saved SP when coming from user mode);
     * TRAP vectors through x0000-x00FF and returns with RTI; interrupts/exceptions through
       x0100-x01FF; RTI loads all 16 bits of the popped PSR;
     * JSRR R7 jumps to the old R7;
     * reading an I/O address refreshes its memory word from the internal register / device that
       answers; a write no device accepts leaves memory unchanged;
     * with "virtual" traps, HALT (TRAP x25) stops the machine with the PC back at the HALT, and an
       exception (access violation, privilege violation, illegal opcode / bad format) stops it
       where it was raised (PC already incremented unless the fetch itself failed); with "real"
       traps a raised exception enters the OS handler through x0100 / x0101 / x0102;
     * privilege checks can be switched off (everything runs as supervisor for access checks).
   The device functions (keyboard/display/timer/script, [dev_read]/[dev_write]/[poll_all]) are
   shared with the model: devices are not part of the ISA. *)
From Coq Require Import ZArith List Bool FMapPositive.
From Gen Require Import Constants.
From Model Require Import Bits Word Instr Sim.
Import ListNotations.
Open Scope Z_scope.

Record amem := mkAMem { am_over : PositiveMap.t Z; am_fill : Z }.
Definition amget (m : amem) (a : Z) : Z :=
  match PositiveMap.find (mkey a) (am_over m) with Some v => v | None => am_fill m end.
Definition amset (m : amem) (a v : Z) : amem := mkAMem (PositiveMap.add (mkey a) v (am_over m)) (am_fill m).

Record astate := mkA {
  a_regs : list Z; a_pc : Z; a_psr : Z; a_ssp : Z; a_mem : amem;
  a_devs : list dev; a_ireg : list (Z * ireg); a_mcr : bool;
  a_real : bool; a_nopriv : bool }.

Inductive sout := SOk | SHalt | SErr (e : simerr).

Definition areg (a : astate) (r : Z) : Z := nth (Z.to_nat r) (a_regs a) 0.
Definition with_reg (a : astate) (r v : Z) : astate :=
  mkA (set_nth (a_regs a) (Z.to_nat r) v) (a_pc a) (a_psr a) (a_ssp a) (a_mem a) (a_devs a) (a_ireg a) (a_mcr a) (a_real a) (a_nopriv a).
Definition with_pc (a : astate) (pc : Z) : astate :=
  mkA (a_regs a) pc (a_psr a) (a_ssp a) (a_mem a) (a_devs a) (a_ireg a) (a_mcr a) (a_real a) (a_nopriv a).
Definition with_psr (a : astate) (p : Z) : astate :=
  mkA (a_regs a) (a_pc a) p (a_ssp a) (a_mem a) (a_devs a) (a_ireg a) (a_mcr a) (a_real a) (a_nopriv a).
Definition with_ssp (a : astate) (v : Z) : astate :=
  mkA (a_regs a) (a_pc a) (a_psr a) v (a_mem a) (a_devs a) (a_ireg a) (a_mcr a) (a_real a) (a_nopriv a).
Definition with_mem (a : astate) (m : amem) : astate :=
  mkA (a_regs a) (a_pc a) (a_psr a) (a_ssp a) m (a_devs a) (a_ireg a) (a_mcr a) (a_real a) (a_nopriv a).
Definition with_devs (a : astate) (d : list dev) : astate :=
  mkA (a_regs a) (a_pc a) (a_psr a) (a_ssp a) (a_mem a) d (a_ireg a) (a_mcr a) (a_real a) (a_nopriv a).
Definition with_mcr (a : astate) (b : bool) : astate :=
  mkA (a_regs a) (a_pc a) (a_psr a) (a_ssp a) (a_mem a) (a_devs a) (a_ireg a) b (a_real a) (a_nopriv a).

(* PSR fields *)
Definition supervisor (a : astate) : bool := Z.shiftr (a_psr a) 15 =? 0.
Definition may_access_all (a : astate) : bool := supervisor a || a_nopriv a.
Definition cond_codes (a : astate) : Z := Z.land (a_psr a) 7.
Definition nzp (v : Z) : Z := let s := to_i16 v in if s <? 0 then 4 else if s =? 0 then 2 else 1.
Definition with_cc (a : astate) (v : Z) : astate := with_psr a (Z.lor (Z.land (a_psr a) 65528) (nzp v)).
Definition user_space (x : Z) : bool := (sim.USER_START <=? x) && (x <? sim.IO_START).

(* ---- memory access with privilege check and memory-mapped I/O ---- *)
Definition io_reg_value (a : astate) (r : ireg) : Z :=
  match r with
  | RegPC => a_pc a | RegPSR => a_psr a | RegMCR => if a_mcr a then 32768 else 0 | RegSavedSP => a_ssp a
  end.
Definition io_reg_store (a : astate) (r : ireg) (v : Z) : astate :=
  match r with
  | RegPC => with_pc a v
  | RegPSR => with_psr a (psr_set v)
  | RegMCR => with_mcr a (32768 <=? v)
  | RegSavedSP => with_ssp a v
  end.

(* load: None = access violation *)
Definition load (e : env) (priv : bool) (x : Z) (a : astate) : astate * option Z :=
  if negb priv && negb (user_space x) then (a, None)
  else if x <? sim.IO_START then (a, Some (amget (a_mem a) x))
  else match assoc (a_ireg a) x with
       | Some r => let v := io_reg_value a r in (with_mem a (amset (a_mem a) x v), Some v)
       | None =>
           let id := port_dev x in
           let '(d', v) := dev_read e (nth_dev (a_devs a) id) x true in
           let a' := with_devs a (set_nth (a_devs a) (Z.to_nat id) d') in
           match v with
           | Some v => (with_mem a' (amset (a_mem a') x v), Some v)
           | None => (a', Some (amget (a_mem a') x))
           end
       end.

(* store: false = access violation *)
Definition store (e : env) (priv : bool) (x v : Z) (a : astate) : astate * bool :=
  if negb priv && negb (user_space x) then (a, false)
  else if x <? sim.IO_START then (with_mem a (amset (a_mem a) x v), true)
  else match assoc (a_ireg a) x with
       | Some r => let a' := io_reg_store a r v in (with_mem a' (amset (a_mem a') x v), true)
       | None =>
           let id := port_dev x in
           let '(d', ok) := dev_write e (nth_dev (a_devs a) id) x v in
           let a' := with_devs a (set_nth (a_devs a) (Z.to_nat id) d') in
           (if ok then with_mem a' (amset (a_mem a') x v) else a', true)
       end.

(* ---- entering a trap / exception / interrupt service routine ---- *)
Definition swap_stacks (a : astate) : astate :=
  with_ssp (with_reg a 6 (a_ssp a)) (areg a 6).

(* entry: switch to the supervisor stack if in user mode, push PSR and PC, supervisor mode,
   CC := Z, priority raised for interrupts, PC := mem[vector].  The pushes and the vector read
   are supervisor accesses. *)
Definition enter (e : env) (vector : Z) (prio : option Z) (a : astate) : astate * sout :=
  let a1 := if supervisor a then a else swap_stacks a in
  let old_psr := a_psr a1 in
  let old_pc := a_pc a1 in
  let a2 := with_psr a1 (Z.land (a_psr a1) 32767) in
  let sp := areg a2 6 in
  let a3 := with_reg a2 6 (wrap16 (sp - 2)) in
  let '(a4, _) := store e true (wrap16 (sp - 1)) old_psr a3 in
  let '(a5, _) := store e true (wrap16 (sp - 2)) old_pc a4 in
  let psr_z := Z.lor (Z.land (a_psr a5) 65528) 2 in
  let a6 := with_psr a5 (match prio with
                        | Some p => Z.lor (Z.land psr_z 63743) (Z.shiftl (Z.land p 7) 8)
                        | None => psr_z
                        end) in
  let '(a7, target) := load e (may_access_all a6) vector a6 in
  match target with
  | Some t => (with_pc a7 t, SOk)
  | None => (a7, SErr AccessViolation)   (* only if a push landed on a memory-mapped PSR and dropped the privilege *)
  end.

(* raising an exception: the step stops here; [spec_step] enters the handler under real traps *)
Definition raise_exc (which : simerr) (a : astate) : astate * sout := (a, SErr which).

Definition operand_value (a : astate) (o : imm_or_reg) : Z :=
  match o with Imm v => to_u16 v | RegOp r => areg a r end.

(* [a] already has PC = pc0 + 1 *)
Definition execute (e : env) (pc0 : Z) (i : sim_instr) (a : astate) : astate * sout :=
  let priv := may_access_all a in
  let pc := a_pc a in
  let acv (a' : astate) := raise_exc AccessViolation a' in
  match i with
  | SADD dr sr1 o => let v := wrap16 (areg a sr1 + operand_value a o) in (with_cc (with_reg a dr v) v, SOk)
  | SAND dr sr1 o => let v := Z.land (areg a sr1) (operand_value a o) in (with_cc (with_reg a dr v) v, SOk)
  | SNOT dr sr => let v := 65535 - areg a sr in (with_cc (with_reg a dr v) v, SOk)
  | SBR cc off =>
      if Z.land cc (cond_codes a) =? 0 then (a, SOk) else (with_pc a (wrap16 (pc + off)), SOk)
  | SJMP br => (with_pc a (areg a br), SOk)
  | SJSR o =>
      let target := match o with Imm off => wrap16 (pc + off) | RegOp br => areg a br end in
      (with_pc (with_reg a 7 pc) target, SOk)
  | SLEA dr off => (with_reg a dr (wrap16 (pc + off)), SOk)
  | SLD dr off =>
      match load e priv (wrap16 (pc + off)) a with
      | (a', Some v) => (with_cc (with_reg a' dr v) v, SOk)
      | (a', None) => acv a'
      end
  | SLDR dr br off =>
      match load e priv (wrap16 (areg a br + off)) a with
      | (a', Some v) => (with_cc (with_reg a' dr v) v, SOk)
      | (a', None) => acv a'
      end
  | SLDI dr off =>
      match load e priv (wrap16 (pc + off)) a with
      | (a', Some p) =>
          match load e priv p a' with
          | (a'', Some v) => (with_cc (with_reg a'' dr v) v, SOk)
          | (a'', None) => acv a''
          end
      | (a', None) => acv a'
      end
  | SST sr off =>
      match store e priv (wrap16 (pc + off)) (areg a sr) a with
      | (a', true) => (a', SOk) | (a', false) => acv a'
      end
  | SSTR sr br off =>
      match store e priv (wrap16 (areg a br + off)) (areg a sr) a with
      | (a', true) => (a', SOk) | (a', false) => acv a'
      end
  | SSTI sr off =>
      match load e priv (wrap16 (pc + off)) a with
      | (a', Some p) =>
          match store e (may_access_all a') p (areg a' sr) a' with
          | (a'', true) => (a'', SOk) | (a'', false) => acv a''
          end
      | (a', None) => acv a'
      end
  | STRAP v =>
      if negb (a_real a) && (v =? 37) then (with_pc a pc0, SHalt) else enter e v None a
  | SRTI =>
      if negb priv then raise_exc PrivilegeViolation a
      else
        let sp := areg a 6 in
        match load e priv sp a with
        | (a1, Some new_pc) =>
            match load e priv (wrap16 (sp + 1)) a1 with
            | (a2, Some new_psr) =>
                let a3 := with_psr (with_pc (with_reg a2 6 (wrap16 (areg a2 6 + 2))) new_pc) new_psr in
                ((if Z.shiftr new_psr 15 =? 0 then a3 else swap_stacks a3), SOk)
            | (a2, None) => acv a2
            end
        | (a1, None) => acv a1
        end
  end.

Definition inner_step (e : env) (a : astate) : astate * sout :=
  (* devices are polled at every instruction boundary; the highest-priority request (the last
     one among equals) is taken when it exceeds the current priority *)
  let '(ds, irq, _) := poll_all e (a_devs a) (e_draws e) None in
  let a0 := with_devs a ds in
  let pc0 := a_pc a0 in
  let fetch_execute :=
    match load e (may_access_all a0) pc0 a0 with
    | (a1, None) => raise_exc AccessViolation a1
    | (a1, Some w) =>
        match decode w with
        | DOk i => execute e pc0 i (with_pc a1 (wrap16 (a_pc a1 + 1)))
        | DIllegalOpcode => raise_exc IllegalOpcode a1
        | _ => raise_exc InvalidInstrFormat a1
        end
    end in
  match irq with
  | Some (IVec vect prio) =>
      if Z.land (Z.shiftr (a_psr a0) 8) 7 <? prio then enter e (256 + vect) (Some prio) a0 else fetch_execute
  | Some IExt => (a0, SErr InterruptErr)
  | None => fetch_execute
  end.

Definition exception_vector (which : simerr) : option Z :=
  match which with
  | PrivilegeViolation => Some 256
  | IllegalOpcode | InvalidInstrFormat => Some 257
  | AccessViolation => Some 258
  | _ => None
  end.

Definition spec_step (e : env) (a : astate) : astate * sout :=
  let '(a1, o) := inner_step e a in
  if a_real a1 then
    match o with
    | SErr which => match exception_vector which with Some v => enter e v None a1 | None => (a1, o) end
    | SHalt => enter e 37 None a1
    | SOk => (a1, o)
    end
  else (a1, o).
