(* LayoutSpec.v — what the object file of a program must contain (C01), stated positionally and
   without reference to the assembler model: the address of a statement is the origin of its
   block plus the sizes of the statements before it (unbounded Z), its words are the ISA
   encoding ([Instr.encode], proved inverse to decode in C06) with aliases expanded and label
   operands replaced by `address of the label - address of the following word` (as a field
   value modulo 2^16), `.fill` is the value or the label's address, `.stringz` its UTF-8 bytes
   and a zero word, `.blkw n` n uninitialised words.  A label is bound to the address of the
   statement it stands on (the location counter for a label on `.end`), an `.external`
   declaration binds its name to 0; the first binding of a name (upper-cased) is its meaning. *)
From Coq Require Import ZArith List Bool.
From Model Require Import Text Instr AsmAst.
Import ListNotations.
Open Scope Z_scope.

(* words occupied by a statement *)
Definition size (s : stmt) : Z :=
  match s_nucleus s with
  | NInstr _ => 1
  | NDir (DFill _) => 1
  | NDir (DBlkw n) => n
  | NDir (DStringz t) => byte_len t + 1
  | NDir _ => 0
  end.

(* a position: None outside every block, Some (origin of the open block, current address) *)
Definition pos := option (Z * Z).
Definition next (c : pos) (s : stmt) : pos :=
  match s_nucleus s with
  | NDir (DOrig a) => Some (a, a)
  | NDir DEnd => None
  | _ => match c with Some (o, a) => Some (o, a + size s) | None => None end
  end.
(* every statement with the position it is met at *)
Fixpoint place (c : pos) (p : list stmt) : list (pos * stmt) :=
  match p with [] => [] | s :: r => (c, s) :: place (next c s) r end.
Definition placed (p : list stmt) : list (pos * stmt) := place None p.
Definition final (c : pos) (p : list stmt) : pos := fold_left next p c.

(* ---------- labels ---------- *)
Record binding := mkB { b_name : str; b_addr : Z; b_ext : bool; b_src : Z }.
Definition binds_of (cs : pos * stmt) : list binding :=
  (match fst cs with
   | Some (_, a) => map (fun l => mkB (upper (l_name l)) a false (l_start l)) (s_labels (snd cs))
   | None => []
   end)
  ++ match s_nucleus (snd cs) with
     | NDir (DExternal l) => [mkB (upper (l_name l)) 0 true (l_start l)]
     | _ => []
     end.
Definition bindings (p : list stmt) : list binding := flat_map binds_of (placed p).
(* the meaning of a name under any letter case: its first binding *)
Definition named (key : str) (b : binding) : bool := str_eqb (b_name b) key.
Definition lookup (name : str) (bs : list binding) : option binding := find (named (upper name)) bs.
Definition spec_label (p : list stmt) (name : str) : option binding := lookup name (bindings p).

(* ---------- words ---------- *)
(* the signed n-bit field value f with  here + 1 + f = target  modulo 2^16, if there is one *)
Definition field_value (n target here : Z) : option Z :=
  let d := (target - (here + 1)) mod 65536 in
  if d <? 2 ^ (n - 1) then Some d
  else if 65536 - 2 ^ (n - 1) <=? d then Some (d - 65536)
  else None.

Definition label_addr (bs : list binding) (l : label) : Z :=
  match lookup (l_name l) bs with Some b => b_addr b | None => 0 end.
Definition operand_value (bs : list binding) (n : Z) (o : pcoff) (here : Z) : Z :=
  match o with
  | POff v => v
  | PLab l => match field_value n (label_addr bs l) here with Some f => f | None => 0 end
  end.

(* aliases expanded, label operands resolved for an instruction at address [here] *)
Definition expand (bs : list binding) (here : Z) (i : asm_instr) : sim_instr :=
  let rel n o := operand_value bs n o here in
  match i with
  | AADD dr sr1 o => SADD dr sr1 o
  | AAND dr sr1 o => SAND dr sr1 o
  | ABR cc o => SBR cc (rel 9 o)
  | AJMP br => SJMP br
  | AJSR o => SJSR (Imm (rel 11 o))
  | AJSRR br => SJSR (RegOp br)
  | ALD dr o => SLD dr (rel 9 o)
  | ALDI dr o => SLDI dr (rel 9 o)
  | ALDR dr br off => SLDR dr br off
  | ALEA dr o => SLEA dr (rel 9 o)
  | ANOT dr sr => SNOT dr sr
  | ARET => SJMP 7                       (* RET = JMP R7 *)
  | ARTI => SRTI
  | AST sr o => SST sr (rel 9 o)
  | ASTI sr o => SSTI sr (rel 9 o)
  | ASTR sr br off => SSTR sr br off
  | ATRAP v => STRAP v
  | ANOP o => SBR 0 (rel 9 o)            (* NOP = BR with no condition bit *)
  | AGETC => STRAP 32 | AOUT => STRAP 33 | APUTC => STRAP 33 | APUTS => STRAP 34
  | AIN => STRAP 35 | APUTSP => STRAP 36 | AHALT => STRAP 37
  end.

Definition stmt_words (bs : list binding) (here : Z) (s : stmt) : list (option Z) :=
  match s_nucleus s with
  | NInstr i => [Some (encode (expand bs here i))]
  | NDir (DFill (POff v)) => [Some v]
  | NDir (DFill (PLab l)) => [Some (label_addr bs l)]
  | NDir (DBlkw n) => repeat None (Z.to_nat n)
  | NDir (DStringz t) => map Some (utf8_bytes t) ++ [Some 0]
  | NDir _ => []
  end.

(* ---------- the image ---------- *)
Fixpoint cells_from (a : Z) (ws : list (option Z)) : list (Z * option Z) :=
  match ws with [] => [] | w :: r => (a, w) :: cells_from (a + 1) r end.
Definition cells_of (bs : list binding) (cs : pos * stmt) : list (Z * option Z) :=
  match fst cs with
  | Some (_, a) => cells_from a (stmt_words bs a (snd cs))
  | None => []
  end.
(* every (address, word) of the program, in program order *)
Definition spec_cells (p : list stmt) : list (Z * option Z) := flat_map (cells_of (bindings p)) (placed p).

Fixpoint cell_at {A} (a : Z) (l : list (Z * A)) : option A :=
  match l with [] => None | (k, v) :: r => if k =? a then Some v else cell_at a r end.
(* None: no statement occupies the address; Some None: an uninitialised (.blkw) word *)
Definition spec_image (p : list stmt) (a : Z) : option (option Z) := cell_at a (spec_cells p).
