(* LineSpec.v — what the debug line table must contain (C24), positionally: one pair
   (line, address) for every statement that occupies memory (anything but .orig, .end, .external)
   and stands inside a block; the line is the line of the source text on which the statement
   (its mnemonic or directive, not its labels) starts, the address is the statement's address.
   [lines_inc]: every statement starts on a later line than the statement before it — what the
   parser guarantees (one statement per line; labels may stand on lines of their own). *)
From Coq Require Import ZArith List Bool Sorted.
From Model Require Import Text AsmAst SourceInfo.
From Spec Require Import LayoutSpec WfSpec.
Import ListNotations.
Open Scope Z_scope.

Definition line_of (text : str) (s : stmt) : Z := get_line text (s_start s).
Definition lines_inc (text : str) (p : list stmt) : Prop :=
  StronglySorted (fun s s' => line_of text s < line_of text s') p.

Definition line_entry (text : str) (cs : pos * stmt) : list (Z * Z) :=
  match fst cs with
  | Some (_, a) => if needs_addr (snd cs) then [(line_of text (snd cs), a)] else []
  | None => []
  end.
Definition spec_lines (text : str) (p : list stmt) : list (Z * Z) := flat_map (line_entry text) (placed p).

(* `.blkw 0` occupies no memory; the parser rejects it *)
Definition blkw_pos (p : list stmt) : bool :=
  forallb (fun s => match s_nucleus s with NDir (DBlkw n) => 0 <? n | _ => true end) p.
