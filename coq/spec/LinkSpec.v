(* LinkSpec.v — what linking means, written on maps and without looking at the linker
   (DESIGN.md section 6, C20).  Independent of model/Link.v: only the data model Obj.v.

   An object is observed through three maps (its VIEW):
     image    address -> content of the memory word there (None = not part of the object,
              Some None = reserved but uninitialised, Some (Some w) = word w) — what `addr_iter` lists;
     labels   name -> (address, external flag)                     — what `label_iter` lists;
     pending  address -> name of the external label a `.fill` there waits for  — `.LINKER_INFO`.
   Linking two views is defined pointwise, so no order of blocks, labels or relocations exists
   that the result could depend on:
     * linkable  iff no address lies in both images and no name is defined (non-external) at two
                 different addresses;
     * labels    = union, a definition beats an external declaration;
     * pending   = the pending relocations of both whose label is still external;
     * image     = union, and every pending `.fill` whose label is now defined holds its address. *)
From Coq Require Import ZArith List Bool.
From Model Require Import Text Obj.
Import ListNotations.
Open Scope Z_scope.

Record view := mkView {
  v_img : Z -> option (option Z);
  v_lbl : str -> option (Z * bool);
  v_pend : Z -> option str
}.

(* two views are the same observation *)
Definition veq (v w : view) : Prop :=
  (forall a, v_img v a = v_img w a) /\ (forall n, v_lbl v n = v_lbl w n) /\ (forall a, v_pend v a = v_pend w a).

Definition first_of {A} (x y : option A) : option A := match x with Some _ => x | None => y end.

(* union of label entries: defined beats external *)
Definition lmerge (x y : option (Z * bool)) : option (Z * bool) :=
  match x, y with
  | None, _ => y
  | _, None => x
  | Some (_, true), Some (_, false) => y
  | Some _, Some _ => x
  end.

Definition is_defined (x : option (Z * bool)) : option Z :=
  match x with Some (t, false) => Some t | _ => None end.

Definition vlink (a b : view) : view :=
  let lbl := fun n => lmerge (v_lbl a n) (v_lbl b n) in
  let pend_u := fun addr => first_of (v_pend a addr) (v_pend b addr) in
  let img_u := fun addr => first_of (v_img a addr) (v_img b addr) in
  mkView
    (fun addr => match img_u addr with
                 | None => None
                 | Some w => match pend_u addr with
                             | Some n => match is_defined (lbl n) with Some t => Some (Some t) | None => Some w end
                             | None => Some w
                             end
                 end)
    lbl
    (fun addr => match pend_u addr with
                 | Some n => match is_defined (lbl n) with Some _ => None | None => Some n end
                 | None => None
                 end).

Definition Linkable (a b : view) : Prop :=
  (forall addr, v_img a addr = None \/ v_img b addr = None) /\
  (forall n x y, v_lbl a n = Some (x, false) -> v_lbl b n = Some (y, false) -> x = y).

(* well-formed views: external labels carry the placeholder address 0; a pending relocation
   names a label that is external in the same object and sits inside the object's image *)
Definition ViewInv (v : view) : Prop :=
  (forall n x, v_lbl v n = Some (x, true) -> x = 0) /\
  (forall addr n, v_pend v addr = Some n -> exists x, v_lbl v n = Some (x, true)) /\
  (forall addr n, v_pend v addr = Some n -> v_img v addr <> None).

(* the empty object *)
Definition vempty : view := mkView (fun _ => None) (fun _ => None) (fun _ => None).

(* ---------- the view of an object file ---------- *)
Definition img_at (o : objfile) (addr : Z) : option (option Z) :=
  match find (fun b => (fst b <=? addr) && (addr <? fst b + Z.of_nat (List.length (snd b)))) (o_blocks o) with
  | Some (s, ws) => nth_error ws (Z.to_nat (addr - s))
  | None => None
  end.
Definition lbl_at (o : objfile) (n : str) : option (Z * bool) :=
  match o_sym o with
  | Some st => match find (fun p => str_eqb (fst p) n) (st_labels st) with
               | Some (_, d) => Some (sd_addr d, sd_external d)
               | None => None
               end
  | None => None
  end.
Definition pend_at (o : objfile) (addr : Z) : option str :=
  match o_sym o with
  | Some st => match find (fun p => fst p =? addr) (st_rel st) with
               | Some (_, n) => Some n
               | None => None
               end
  | None => None
  end.
Definition view_of (o : objfile) : view := mkView (img_at o) (lbl_at o) (pend_at o).

(* ---------- linking any number of files in any order and grouping ---------- *)
Inductive ltree :=
| Leaf (o : objfile)
| Node (l r : ltree).
Fixpoint leaves (t : ltree) : list objfile :=
  match t with Leaf o => [o] | Node l r => leaves l ++ leaves r end.
(* the order-free meaning of linking a list of views *)
Definition vlink_all (l : list view) : view := fold_right vlink vempty l.
(* every two of them are linkable *)
Fixpoint AllLinkable (l : list view) : Prop :=
  match l with
  | [] => True
  | v :: r => Forall (Linkable v) r /\ AllLinkable r
  end.
