(* Numerals.v — what a written number means, independently of the lexer model: the positional
   value of a string of ASCII digit characters, the 16-bit ranges, and the field widths of the
   operands (property C05). *)
From Coq Require Import ZArith List Bool.
Import ListNotations.
Open Scope Z_scope.

Definition dec_digit (c : Z) : Prop := 48 <= c <= 57.                       (* '0'..'9' *)
Definition hex_digit (c : Z) : Prop :=
  48 <= c <= 57 \/ 65 <= c <= 70 \/ 97 <= c <= 102.                         (* 0-9 A-F a-f *)

(* value of one digit character *)
Definition digit_value (c : Z) : Z :=
  if c <=? 57 then c - 48 else if c <=? 70 then c - 55 else c - 87.

(* positional value, most significant digit first; leading zeros do not matter *)
Fixpoint numeral_value (radix acc : Z) (ds : list Z) : Z :=
  match ds with
  | [] => acc
  | c :: r => numeral_value radix (acc * radix + digit_value c) r
  end.
Definition value_of (radix : Z) (ds : list Z) : Z := numeral_value radix 0 ds.

Definition u16_range (v : Z) : bool := (0 <=? v) && (v <=? 65535).
Definition i16_range (v : Z) : bool := (-32768 <=? v) && (v <=? 32767).

(* operand fields *)
Inductive field := Imm5 | Offset6 | PCOffset9 | PCOffset11 | TrapVect8 | Orig | Blkw | Fill.
Definition signed_fits (n v : Z) : bool := (- 2 ^ (n - 1) <=? v) && (v <=? 2 ^ (n - 1) - 1).
Definition unsigned_fits (n v : Z) : bool := (0 <=? v) && (v <=? 2 ^ n - 1).
Definition fits (f : field) (v : Z) : bool :=
  match f with
  | Imm5 => signed_fits 5 v
  | Offset6 => signed_fits 6 v
  | PCOffset9 => signed_fits 9 v
  | PCOffset11 => signed_fits 11 v
  | TrapVect8 => unsigned_fits 8 v
  | Orig => unsigned_fits 16 v
  | Blkw => unsigned_fits 16 v && negb (v =? 0)
  | Fill => signed_fits 16 v || unsigned_fits 16 v
  end.
(* the value stored for an accepted operand: itself, except .fill which stores it modulo 2^16 *)
Definition stored (f : field) (v : Z) : Z :=
  match f with Fill => v mod 65536 | _ => v end.
