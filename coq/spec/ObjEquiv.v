(* ObjEquiv.v — equality of object files as the Rust `PartialEq` sees them: `label_map` and
   `rel_map` are HashMaps (the order of their entries does not matter), `block_map` and the line
   map are BTreeMaps (lists sorted by key: plain equality), the source text is a string. *)
From Coq Require Import ZArith List Permutation.
From Model Require Import Text Obj.

Definition symtab_equiv (a b : symtab) : Prop :=
  Permutation (st_labels a) (st_labels b) /\ Permutation (st_rel a) (st_rel b) /\ st_debug a = st_debug b.

Definition obj_equiv (a b : objfile) : Prop :=
  o_blocks a = o_blocks b /\
  match o_sym a, o_sym b with
  | None, None => True
  | Some x, Some y => symtab_equiv x y
  | _, _ => False
  end.
