(* ObjImage.v — what an object file SAYS about memory, independently of any loader.
   An object is a list of blocks (start address, words); a word is [Some v] (initialised data)
   or [None] (reserved, e.g. `.blkw`).  Addresses are 16-bit: a block may run past xFFFF and
   continue at x0000. *)
From Coq Require Import ZArith List Bool.
Import ListNotations.
Open Scope Z_scope.

Definition block := (Z * list (option Z))%type.

(* what a run of words placed at [start] (wrapping at 2^16) says about address [a] *)
Definition chunk_at (start : Z) (c : list (option Z)) (a : Z) : option (option Z) :=
  let k := (a - start) mod 65536 in
  if k <? Z.of_nat (length c) then Some (nth (Z.to_nat k) c None) else None.

(* every block starts at an address and holds fewer than 2^16 words *)
Definition block_ok (b : block) : Prop := 0 <= fst b < 65536 /\ Z.of_nat (length (snd b)) < 65536.
Definition blocks_ok (bs : list block) : Prop := Forall block_ok bs.

Definition covers (b : block) (a : Z) : bool := (a - fst b) mod 65536 <? Z.of_nat (length (snd b)).
Fixpoint cover_count (bs : list block) (a : Z) : Z :=
  match bs with [] => 0 | b :: r => (if covers b a then 1 else 0) + cover_count r a end.
(* pairwise disjoint: no address belongs to two blocks *)
Definition disjoint_blocks (bs : list block) : Prop := forall a, 0 <= a < 65536 -> cover_count bs a <= 1.

(* the image of an object: what the file says about address a (first block that holds it) *)
Fixpoint image (bs : list block) (a : Z) : option (option Z) :=
  match bs with
  | [] => None
  | b :: r => match chunk_at (fst b) (snd b) a with Some x => Some x | None => image r a end
  end.
