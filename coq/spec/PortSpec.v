(* PortSpec.v — what C32 says, as a table: which internal register is mapped at an address, who owns
   an I/O port, and a counter of the ids given out.  Written from the property text, not from the
   code: no device list, no id 0 sentinel, no port array.

   R is the type of internal-register names (left abstract here). *)
From Coq Require Import ZArith List Bool.
Import ListNotations.
Open Scope Z_scope.

Inductive owner := Nobody | Keyboard | Display | Added (id : Z).

Record ptable (R : Type) := mk_ptable {
  pt_reg : Z -> option R;      (* internal register mapped at an address *)
  pt_owner : Z -> owner;       (* owner of a port *)
  pt_next : Z                  (* the id the next added device gets *)
}.
Arguments mk_ptable {R}. Arguments pt_reg {R}. Arguments pt_owner {R}. Arguments pt_next {R}.

(* I/O addresses: xFE00 ..= xFFFF *)
Definition io_addr (a : Z) : bool := (65024 <=? a) && (a <=? 65535).

(* a fresh machine: the keyboard owns xFE00 and xFE02, the display xFE04 and xFE06, ids start at 3;
   [regs0] are the registers mapped from the start *)
Definition pt_init {R} (regs0 : Z -> option R) : ptable R :=
  mk_ptable regs0
    (fun p => if (p =? 65024) || (p =? 65026) then Keyboard
              else if (p =? 65028) || (p =? 65030) then Display else Nobody)
    3.

Definition nobody (o : owner) : bool := match o with Nobody => true | _ => false end.
Definition mem_z (p : Z) (l : list Z) : bool := existsb (Z.eqb p) l.

(* Adding a device succeeds exactly when every requested port is an I/O address not owned by a
   device (and ids, which are 16-bit, have not run out); then the device owns exactly those ports
   in addition, under a fresh id. *)
Definition pt_can_add {R} (t : ptable R) (ports : list Z) : bool :=
  (pt_next t <=? 65535) && forallb (fun p => io_addr p && nobody (pt_owner t p)) ports.
Definition pt_add {R} (t : ptable R) (ports : list Z) : ptable R * option Z :=
  if pt_can_add t ports then
    (mk_ptable (pt_reg t) (fun p => if mem_z p ports then Added (pt_next t) else pt_owner t p) (pt_next t + 1),
     Some (pt_next t))
  else (t, None).

(* Removing a device frees its ports; the keyboard and display ports stay reserved (and ids below 3
   are not added devices). *)
Definition pt_remove {R} (t : ptable R) (id : Z) : ptable R :=
  if 3 <=? id then
    mk_ptable (pt_reg t)
      (fun p => match pt_owner t p with Added i => if i =? id then Nobody else Added i | o => o end)
      (pt_next t)
  else t.

(* internal-register mappings: only I/O addresses (from xFE00 up), only where none is mapped yet *)
Inductive map_err := ErrNotIO | ErrMapped.
Definition pt_mmap {R} (t : ptable R) (a : Z) (r : R) : ptable R * option map_err :=
  if a <? 65024 then (t, Some ErrNotIO)
  else match pt_reg t a with
       | Some _ => (t, Some ErrMapped)
       | None => (mk_ptable (fun q => if q =? a then Some r else pt_reg t q) (pt_owner t) (pt_next t), None)
       end.
Definition pt_munmap {R} (t : ptable R) (a : Z) : ptable R * bool :=
  match pt_reg t a with
  | Some _ => (mk_ptable (fun q => if q =? a then None else pt_reg t q) (pt_owner t) (pt_next t), true)
  | None => (t, false)
  end.

(* What a read or write at an address reaches: the internal register mapped there if there is one,
   otherwise the device that currently owns the port (its slot: 1 keyboard, 2 display, else the id),
   otherwise nothing; outside the I/O range, memory. *)
Inductive target (R : Type) := ToReg (r : R) | ToSlot (id : Z) | ToNothing | ToMemory.
Arguments ToReg {R}. Arguments ToSlot {R}. Arguments ToNothing {R}. Arguments ToMemory {R}.
Definition pt_target {R} (t : ptable R) (a : Z) : target R :=
  if io_addr a then
    match pt_reg t a with
    | Some r => ToReg r
    | None => match pt_owner t a with
              | Nobody => ToNothing
              | Keyboard => ToSlot 1
              | Display => ToSlot 2
              | Added i => ToSlot i
              end
    end
  else ToMemory.
