(* RunSpec.v — what "run = repeated single steps, stopped at the first boundary where a stop
   condition holds" means, written without reference to the loop of model/Run.v.

   The only things taken from the model are the single step ([Sim.step]), the breakpoint predicate
   and the type of per-iteration inputs.  An instruction boundary is numbered by the instructions
   (calls of `step`) made so far in this call. *)
From Coq Require Import ZArith List Bool.
From Model Require Import Sim Run.
Import ListNotations.
Open Scope Z_scope.

(* the external MCR clears that arrive before the tests of an iteration / before its instruction *)
Definition pre_state (it : iter) (s : sim) : sim := clear_if (it_pre it) s.
(* the single step of iteration [it], from the boundary state [s] *)
Definition exec_iter (it : iter) (s : sim) : sim * (unit + brk) :=
  step (it_env it) (clear_if (it_mid it) (pre_state it s)).

(* [iter_steps its n s = Some b]: n single steps, each of which completes ([inl tt]), lead from s
   to b.  No MCR test, tripwire or breakpoint is consulted: this is plain repeated stepping. *)
Fixpoint iter_steps (its : list iter) (n : nat) (s : sim) {struct n} : option sim :=
  match n with
  | O => Some s
  | S m =>
      match its with
      | [] => None
      | it :: r => match exec_iter it s with
                   | (s', inl _) => iter_steps r m s'
                   | (_, inr _) => None
                   end
      end
  end.

(* nothing stops the call at boundary j nor during / right after instruction j *)
Definition quiet_at (bps : list bp) (trip : tripwire) (its : list iter) (s : sim) (j : nat) : Prop :=
  exists it b b',
    nth_error its j = Some it /\ iter_steps its j s = Some b /\
    s_mcr (pre_state it b) = true /\ trip j (pre_state it b) = true /\
    exec_iter it b = (b', inl tt) /\ any_bp bps b' = false.

(* the call stops at boundary j (before instruction j), in instruction j, or right after it;
   it yields the final state, the reason and the number of instructions attempted *)
Inductive stop_here (bps : list bp) (trip : tripwire) (j : nat) (it : iter) (b : sim) : sim -> stop -> nat -> Prop :=
| SH_mcr : s_mcr (pre_state it b) = false ->
    stop_here bps trip j it b (pre_state it b) (SPause PMcrOff) j
| SH_trip : s_mcr (pre_state it b) = true -> trip j (pre_state it b) = false ->
    stop_here bps trip j it b (pre_state it b) (SPause PTripwire) j
| SH_halt : forall s', s_mcr (pre_state it b) = true -> trip j (pre_state it b) = true ->
    exec_iter it b = (s', inr BHalt) -> stop_here bps trip j it b s' (SPause PHalt) (S j)
| SH_err : forall s' e, s_mcr (pre_state it b) = true -> trip j (pre_state it b) = true ->
    exec_iter it b = (s', inr (BErr e)) -> stop_here bps trip j it b s' (SErr e) (S j)
| SH_panic : forall s', s_mcr (pre_state it b) = true -> trip j (pre_state it b) = true ->
    exec_iter it b = (s', inr BPanic) -> stop_here bps trip j it b s' SPanic (S j)
| SH_bp : forall s', s_mcr (pre_state it b) = true -> trip j (pre_state it b) = true ->
    exec_iter it b = (s', inl tt) -> any_bp bps s' = true ->
    stop_here bps trip j it b s' (SPause PBreakpoint) (S j).

(* the first boundary with a stop condition: every earlier one is quiet *)
Definition first_stop (bps : list bp) (trip : tripwire) (its : list iter) (s : sim)
           (s' : sim) (st : stop) (n : nat) : Prop :=
  exists j it b,
    (forall i, (i < j)%nat -> quiet_at bps trip its s i) /\
    nth_error its j = Some it /\ iter_steps its j s = Some b /\
    stop_here bps trip j it b s' st n.

(* two states that differ at most in the access observer *)
Definition same_but_obs (s t : sim) : Prop := upd_obs s [] = upd_obs t [].

(* entry and exit of a call around the loop: observer cleared and MCR on at entry; at exit the MCR
   is stored off (a panic unwinds past the store) and the pause condition is recorded
   (`Unsuccessful` when the call returns an error) *)
Definition start (s : sim) : sim := upd_mcr (upd_obs s []) true.
Definition finish (s1 : sim) (st : stop) : (sim * pause) * rres :=
  match st with
  | SPause p => ((upd_mcr s1 false, p), ROk)
  | SErr e => ((upd_mcr s1 false, PUnsuccessful), RErr e)
  | SPanic => ((s1, PUnsuccessful), RPanic)
  | SFuel => ((s1, PUnsuccessful), RFuel)
  end.

(* the same repeated stepping written with the public single step `step_in` (which clears the
   observer before every instruction) *)
Fixpoint step_in_n (its : list iter) (n : nat) (s : sim) {struct n} : option sim :=
  match n with
  | O => Some s
  | S m =>
      match its with
      | [] => None
      | it :: r => match step_in (it_env it) (clear_if (it_mid it) (pre_state it s)) with
                   | (s', OOk) => step_in_n r m s'
                   | (_, _) => None
                   end
      end
  end.

(* the tripwire of an unbroken run that behaves like T1 for the first n1 instructions and like
   T2 (counting its calls from 0 again) afterwards *)
Definition trip_seq (n1 : nat) (T1 T2 : tripwire) : tripwire :=
  fun k x => if (k <? n1)%nat then T1 k x else T2 (k - n1)%nat x.
