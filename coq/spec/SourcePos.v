(* SourcePos.v — what "line l of a text", "where line l starts" and "whitespace" mean, written
   directly from the property text and independently of model/SourceInfo.v (no newline index, no
   partition point, no trimming function).  A text is a list of code points; offsets are BYTE
   offsets into its UTF-8 encoding (Text.byte_len). *)
From Coq Require Import ZArith List Bool.
From Model Require Import Text.
Import ListNotations.
Open Scope Z_scope.

(* number of newline code points *)
Fixpoint count_nl (s : str) : Z :=
  match s with [] => 0 | c :: r => (if c =? 10 then 1 else 0) + count_nl r end.

(* the pieces between newlines (a text without a newline is one line; a trailing newline is
   followed by one last, empty line) *)
Fixpoint lines_of (s : str) : list str :=
  match s with
  | [] => [[]]
  | c :: r => if c =? 10 then [] :: lines_of r
              else match lines_of r with p :: ps => (c :: p) :: ps | [] => [[c]] end
  end.

(* ... and that is what they are: newline-free pieces which, joined by newlines, give the text
   (SourceInfoProofs.join_lines_of, lines_of_no_nl, length_lines_of) *)
Fixpoint join_nl (ls : list str) : str :=
  match ls with
  | [] => []
  | p :: ps => match ps with [] => p | _ :: _ => p ++ 10 :: join_nl ps end
  end.

(* byte offset at which piece number l starts: every earlier piece and its newline precede it *)
Fixpoint start_of (ls : list str) (l : nat) {struct l} : Z :=
  match l, ls with
  | S k, p :: ps => byte_len p + 1 + start_of ps k
  | _, _ => 0
  end.

(* lines are numbered from 0; the last one is number count_nl s *)
Definition line (s : str) (l : Z) : str := nth (Z.to_nat l) (lines_of s) [].
Definition line_start (s : str) (l : Z) : Z := start_of (lines_of s) (Z.to_nat l).

(* Unicode White_Space (what Rust's char::is_whitespace / str::trim use) *)
Definition white_space : list Z :=
  [9; 10; 11; 12; 13; 32; 133; 160; 5760;
   8192; 8193; 8194; 8195; 8196; 8197; 8198; 8199; 8200; 8201; 8202;
   8232; 8233; 8239; 8287; 12288].
Definition all_ws (s : str) : Prop := forall c, In c s -> In c white_space.
(* neither the first nor the last code point is whitespace (vacuous for the empty text) *)
Definition no_edge_ws (m : str) : Prop :=
  (forall c r, m = c :: r -> ~ In c white_space) /\ (forall c r, m = r ++ [c] -> ~ In c white_space).

(* a code point is a Unicode scalar value range member (surrogates do not matter here) *)
Definition valid_cp (c : Z) : Prop := 0 <= c < 1114112.
