(* TimerSpec.v — what C34 says about a sequence of polls, independent of the timer model.
   A poll sequence is observed as a list of booleans (true = the poll raised an interrupt). *)
From Coq Require Import ZArith List Bool.
Import ListNotations.
Open Scope Z_scope.

(* numbers of polls strictly between consecutive interrupts.
   [seen]: an interrupt has been seen; [cur]: polls since it *)
Fixpoint gaps_from (seen : bool) (cur : Z) (l : list bool) : list Z :=
  match l with
  | [] => []
  | true :: r => (if seen then [cur] else []) ++ gaps_from true 0 r
  | false :: r => gaps_from seen (cur + 1) r
  end.
Definition gaps (l : list bool) : list Z := gaps_from false 0 l.

(* number of polls before the first interrupt *)
Fixpoint first_fire (l : list bool) : option Z :=
  match l with
  | [] => None
  | true :: _ => Some 0
  | false :: r => match first_fire r with Some k => Some (k + 1) | None => None end
  end.

Definition all_within (lo hi : Z) (l : list Z) : Prop := Forall (fun x => lo <= x <= hi) l.

Example gaps_ex : gaps [false; true; false; false; true; true; false] = [2; 0]
                  /\ first_fire [false; false; true; true] = Some 2.
Proof. split; reflexivity. Qed.
