(* WfSpec.v — which programs the assembler must accept (C02): the boolean [wf] and, for every
   error kind, the condition [violated p kind] it names.  Both are stated on the positional
   layout of spec/LayoutSpec.v in unbounded Z, so they do not depend on the order in which the
   assembler looks.  (Only the TYPE of error kinds is taken from the model.) *)
From Coq Require Import ZArith List Bool.
From Gen Require Import Constants.
From Model Require Import Text Offset AsmAst Assembler.
From Spec Require Import LayoutSpec.
Import ListNotations.
Open Scope Z_scope.

(* what the Rust types and the lexer guarantee about a parsed statement: 16-bit operands of
   .orig/.blkw, string literals shorter than 65535 bytes *)
Definition typed_stmt (s : stmt) : bool :=
  match s_nucleus s with
  | NDir (DOrig a) => (0 <=? a) && (a <? 65536)
  | NDir (DBlkw n) => (0 <=? n) && (n <? 65536)
  | NDir (DStringz t) => byte_len t <? 65535
  | _ => true
  end.
Definition typed (p : list stmt) : bool := forallb typed_stmt p.

Definition inside (c : pos) : bool := match c with Some _ => true | None => false end.
Definition is_orig (s : stmt) : bool := match s_nucleus s with NDir (DOrig _) => true | _ => false end.
Definition is_end (s : stmt) : bool := match s_nucleus s with NDir DEnd => true | _ => false end.
(* the statements that need an address: everything except .orig, .end, .external *)
Definition needs_addr (s : stmt) : bool :=
  match s_nucleus s with NDir (DOrig _) | NDir DEnd | NDir (DExternal _) => false | _ => true end.
Definition has_labels (s : stmt) : bool := match s_labels s with [] => false | _ => true end.

(* label operand of a statement: field width (0 for .fill) and label *)
Definition operand_of (s : stmt) : option (Z * label) :=
  match s_nucleus s with
  | NDir (DFill (PLab l)) => Some (0, l)
  | NInstr (ABR _ (PLab l)) | NInstr (ALD _ (PLab l)) | NInstr (ALDI _ (PLab l)) | NInstr (ALEA _ (PLab l))
  | NInstr (AST _ (PLab l)) | NInstr (ASTI _ (PLab l)) | NInstr (ANOP (PLab l)) => Some (9, l)
  | NInstr (AJSR (PLab l)) => Some (11, l)
  | _ => None
  end.

(* a label or a statement outside every block *)
Definition v_undet_label (p : list stmt) : bool :=
  existsb (fun cs => negb (inside (fst cs)) && has_labels (snd cs)) (placed p).
Definition v_undet_stmt (p : list stmt) : bool :=
  existsb (fun cs => negb (inside (fst cs)) && needs_addr (snd cs)) (placed p).
(* block structure *)
Definition v_unclosed (p : list stmt) : bool := inside (final None p).
Definition v_unopened (p : list stmt) : bool :=
  existsb (fun cs => negb (inside (fst cs)) && is_end (snd cs)) (placed p).
Definition v_nested (p : list stmt) : bool :=
  existsb (fun cs => inside (fst cs) && is_orig (snd cs)) (placed p).
(* one name (ignoring case), two addresses *)
Definition v_dup (p : list stmt) : bool :=
  let bs := bindings p in
  existsb (fun b => existsb (fun b' => str_eqb (b_name b) (b_name b') && negb (b_addr b =? b_addr b')) bs) bs.
(* a memory-occupying statement that ends beyond xFDFF / beyond xFFFF *)
Definition v_reach (limit : Z) (p : list stmt) : bool :=
  existsb (fun cs => match fst cs with
                     | Some (_, a) => (0 <? size (snd cs)) && (limit <? a + size (snd cs))
                     | None => false
                     end) (placed p).
(* the closed blocks [origin, end) in program order; two non-empty ones that intersect *)
Definition blocks (p : list stmt) : list (Z * Z) :=
  flat_map (fun cs => match fst cs with Some oe => if is_end (snd cs) then [oe] else [] | None => [] end) (placed p).
Definition overlap (x y : Z * Z) : bool :=
  (fst x <? snd x) && (fst y <? snd y) && (fst x <? snd y) && (fst y <? snd x).
Fixpoint any_pair {A} (f : A -> A -> bool) (l : list A) : bool :=
  match l with [] => false | a :: r => existsb (f a) r || any_pair f r end.
Definition v_overlap (p : list stmt) : bool := any_pair overlap (blocks p).
(* label operands *)
Definition v_not_found (p : list stmt) : bool :=
  existsb (fun cs => match operand_of (snd cs) with
                     | Some (_, l) => match lookup (l_name l) (bindings p) with None => true | Some _ => false end
                     | None => false
                     end) (placed p).
Definition v_external (p : list stmt) : bool :=
  existsb (fun cs => match operand_of (snd cs) with
                     | Some (n, l) => (0 <? n) && match lookup (l_name l) (bindings p) with Some b => b_ext b | None => false end
                     | None => false
                     end) (placed p).
Definition v_offset (n : Z) (p : list stmt) : bool :=
  existsb (fun cs => match fst cs, operand_of (snd cs) with
                     | Some (_, a), Some (n', l) =>
                         (0 <? n') && (n' =? n) &&
                         match lookup (l_name l) (bindings p) with
                         | Some b => negb (b_ext b) && match field_value n (b_addr b) a with None => true | Some _ => false end
                         | None => false
                         end
                     | _, _ => false
                     end) (placed p).

Definition violated (p : list stmt) (k : err_kind) : bool :=
  match k with
  | UndetAddrLabel => v_undet_label p
  | UndetAddrStmt => v_undet_stmt p
  | UnclosedOrig => v_unclosed p
  | UnopenedOrig => v_unopened p
  | OverlappingOrig => v_nested p
  | OverlappingLabels => v_dup p
  | WrappingBlock => v_reach 65536 p
  | BlockInIO => v_reach asm.IO_START p
  | OverlappingBlocks => v_overlap p
  | OffsetNewErr (CannotFitSigned n) => v_offset n p
  | OffsetNewErr (CannotFitUnsigned _) => false
  | OffsetExternal => v_external p
  | CouldNotFindLabel => v_not_found p
  end.

(* well-formed: closed, non-nested blocks; every label and every statement other than
   .external inside one; no name with two addresses; every label operand defined, non-external
   unless in a .fill, and in reach; no memory-occupying statement beyond xFDFF (hence none
   wrapping); non-empty blocks pairwise disjoint *)
Definition wf (p : list stmt) : bool :=
  negb (v_unclosed p) && negb (v_unopened p) && negb (v_nested p)
  && negb (v_undet_label p) && negb (v_undet_stmt p)
  && negb (v_dup p)
  && negb (v_not_found p) && negb (v_external p) && negb (v_offset 9 p) && negb (v_offset 11 p)
  && negb (v_reach asm.IO_START p)
  && negb (v_overlap p).
