(* WordInit.v — what it means for the initialisation mask of a simulated word to be sound, written
   from the property text, independently of the operators in model/Word.v.
   A word is 16 data bits and a 16-bit mask of the bits the program has really initialised. *)
From Coq Require Import ZArith.
From Model Require Import Word.
Open Scope Z_scope.

Definition u16 (z : Z) : Prop := 0 <= z < 65536.
Definition wf (w : word) : Prop := u16 (w_data w) /\ u16 (w_init w).

(* b is a re-randomisation of a: the same bits are initialised and they hold the same values
   (the uninitialised bits may differ in any way) *)
Definition agree (a b : word) : Prop :=
  w_init a = w_init b /\ Z.land (w_data a) (w_init a) = Z.land (w_data b) (w_init a).

(* every bit is initialised *)
Definition full (w : word) : Prop := w_init w = 65535.

(* A binary / unary operator is sound when re-randomising the uninitialised bits of the operands
   changes neither the result's mask nor any result bit the mask reports as initialised. *)
Definition sound2 (op : word -> word -> word) : Prop :=
  forall l l' r r', wf l -> wf l' -> wf r -> wf r' -> agree l l' -> agree r r' -> agree (op l r) (op l' r').
Definition sound1 (op : word -> word) : Prop :=
  forall l l', wf l -> wf l' -> agree l l' -> agree (op l) (op l').
