//! C01 C02 C23 C24 C26 — the two-pass assembler (src/asm.rs): `assemble`, `assemble_debug`,
//! `SymbolTable::new` and its queries, `AsmErr` spans.
//!
//! Programs come from a statement grammar (every opcode, alias and directive; operands at and
//! inside their field limits; label distances at, inside and one past the 9/11-bit limits;
//! forward/backward references in mixed case; several blocks whose ends are placed at
//! xFDFF/xFE00/xFE01/xFFFF/x10000/x10001; touching and overlapping blocks, also a later block
//! placed before an earlier one; labels on `.end`/`.external`/`.orig` lines; mixed-case
//! duplicates; externals before/between/after their uses; `.stringz`/`.blkw` of varied sizes;
//! 0-3 injected faults).  A program is rendered to text (random case, spacing, label-only lines,
//! comments, blank lines, CRLF), parsed by the real parser, and the parsed statements are
//! assembled with and without debug symbols.  A second, smaller stream builds statements
//! directly (things the parser never yields: `.blkw 0`, spans that do not fit the text, shuffled
//! lines, very long strings) — correspondence only.
//!
//! Correspondence: asm.assemble / asm.pass1 / the query ops against coq/model/Assembler.v.
//! Direct oracles (independent of the model): [layout] recomputes the positional layout, the
//! well-formedness conditions and the image with its own little encoder.
use crate::astwire::*;
use crate::ctx::{catch, par_for, Ctx};
use crate::objwire::*;
use crate::rng::Rng;
use crate::tree::*;
use lc3_ensemble::asm::{assemble, assemble_debug, AsmErr, AsmErrKind, ObjectFile, SymbolTable};
use lc3_ensemble::ast::asm::{AsmInstr, Directive, Stmt, StmtKind};
use lc3_ensemble::ast::{ImmOrReg, Label, Offset, OffsetNewErr, PCOffset};
use lc3_ensemble::parse::parse_ast;
use std::collections::{BTreeMap, BTreeSet};

// ------------------------------------------------------------------------------------------
// wire
// ------------------------------------------------------------------------------------------
pub fn kind_no(k: &AsmErrKind) -> Tree {
    use AsmErrKind as K;
    match k {
        K::UndetAddrLabel => L(vec![i(0)]), K::UndetAddrStmt => L(vec![i(1)]), K::UnclosedOrig => L(vec![i(2)]),
        K::UnopenedOrig => L(vec![i(3)]), K::OverlappingOrig => L(vec![i(4)]), K::OverlappingLabels => L(vec![i(5)]),
        K::WrappingBlock => L(vec![i(6)]), K::BlockInIO => L(vec![i(7)]), K::OverlappingBlocks => L(vec![i(8)]),
        K::OffsetNewErr(OffsetNewErr::CannotFitUnsigned(n)) => L(vec![i(9), i(0), i(*n)]),
        K::OffsetNewErr(OffsetNewErr::CannotFitSigned(n)) => L(vec![i(9), i(1), i(*n)]),
        K::OffsetExternal => L(vec![i(10)]), K::CouldNotFindLabel => L(vec![i(11)]),
    }
}
fn t_spans(e: &AsmErr) -> Tree { list(e.span.iter(), |s| L(vec![iu(s.start), iu(s.end)])) }
fn t_res<T>(r: &Option<Result<T, AsmErr>>, f: impl FnOnce(&T) -> Tree) -> Tree {
    match r {
        None => panic(),
        Some(Ok(o)) => ok(vec![f(o)]),
        Some(Err(e)) => err(vec![kind_no(&e.kind), t_spans(e)]),
    }
}
fn t_src(s: Option<&str>) -> Tree { opt(s, chars) }

// ------------------------------------------------------------------------------------------
// the independent oracle: positional layout, well-formedness, image
// ------------------------------------------------------------------------------------------
#[derive(Clone, Copy, PartialEq, Eq, PartialOrd, Ord, Debug)]
pub enum V { UndetAddrLabel, UndetAddrStmt, UnclosedOrig, UnopenedOrig, OverlappingOrig, OverlappingLabels,
             WrappingBlock, BlockInIO, OverlappingBlocks, Offset9, Offset11, OffsetExternal, CouldNotFindLabel }
fn v_of(k: &AsmErrKind) -> Option<V> {
    use AsmErrKind as K;
    Some(match k {
        K::UndetAddrLabel => V::UndetAddrLabel, K::UndetAddrStmt => V::UndetAddrStmt, K::UnclosedOrig => V::UnclosedOrig,
        K::UnopenedOrig => V::UnopenedOrig, K::OverlappingOrig => V::OverlappingOrig, K::OverlappingLabels => V::OverlappingLabels,
        K::WrappingBlock => V::WrappingBlock, K::BlockInIO => V::BlockInIO, K::OverlappingBlocks => V::OverlappingBlocks,
        K::OffsetNewErr(OffsetNewErr::CannotFitSigned(9)) => V::Offset9,
        K::OffsetNewErr(OffsetNewErr::CannotFitSigned(11)) => V::Offset11,
        K::OffsetNewErr(_) => return None,
        K::OffsetExternal => V::OffsetExternal, K::CouldNotFindLabel => V::CouldNotFindLabel,
    })
}

/// label operand of a statement: (field width or 0 for .fill, label)
fn operand(s: &Stmt) -> Option<(u32, &Label)> {
    fn pc<const N: u32>(o: &PCOffset<i16, N>) -> Option<(u32, &Label)> {
        match o { PCOffset::Label(l) => Some((N, l)), _ => None }
    }
    match &s.nucleus {
        StmtKind::Directive(Directive::Fill(PCOffset::Label(l))) => Some((0, l)),
        StmtKind::Directive(_) => None,
        StmtKind::Instr(x) => match x {
            AsmInstr::BR(_, o) | AsmInstr::LD(_, o) | AsmInstr::LDI(_, o) | AsmInstr::LEA(_, o)
            | AsmInstr::ST(_, o) | AsmInstr::STI(_, o) | AsmInstr::NOP(o) => pc(o),
            AsmInstr::JSR(o) => pc(o),
            _ => None,
        },
    }
}
fn size_of(s: &Stmt) -> i64 {
    match &s.nucleus {
        StmtKind::Instr(_) => 1,
        StmtKind::Directive(Directive::Fill(_)) => 1,
        StmtKind::Directive(Directive::Blkw(n)) => n.get() as i64,
        StmtKind::Directive(Directive::Stringz(t)) => t.len() as i64 + 1,
        StmtKind::Directive(_) => 0,
    }
}
/// does the signed n-bit field reach `target` from the word after `at` (address arithmetic modulo 2^16)?
fn field(n: u32, target: i64, at: i64) -> Option<u16> {
    let d = (target - (at + 1)).rem_euclid(65536);
    let half = 1i64 << (n - 1);
    if d < half || d >= 65536 - half { Some((d & ((1 << n) - 1)) as u16) } else { None }
}

pub struct Layout {
    /// per statement: (origin of its block, its address), None outside every block
    pub place: Vec<Option<(i64, i64)>>,
    /// bindings in program order: (upper-cased name, address, external, source offset of the name)
    pub binds: Vec<(String, i64, bool, usize)>,
    pub violated: BTreeSet<V>,
    /// closed blocks (origin, end) in program order
    pub blocks: Vec<(i64, i64)>,
}
impl Layout {
    pub fn wf(&self) -> bool { self.violated.is_empty() }
    pub fn first(&self, name: &str) -> Option<&(String, i64, bool, usize)> {
        let u = name.to_ascii_uppercase();
        self.binds.iter().find(|b| b.0 == u)
    }
}
pub fn layout(p: &[Stmt]) -> Layout {
    let mut place = vec![];
    let mut binds = vec![];
    let mut violated = BTreeSet::new();
    let mut blocks = vec![];
    let mut pos: Option<(i64, i64)> = None;
    for s in p {
        place.push(pos);
        if !s.labels.is_empty() {
            match pos {
                None => { violated.insert(V::UndetAddrLabel); }
                Some((_, a)) => for l in &s.labels { binds.push((l.name.to_ascii_uppercase(), a, false, l.span().start)); },
            }
        }
        match &s.nucleus {
            StmtKind::Directive(Directive::Orig(a)) => {
                if pos.is_some() { violated.insert(V::OverlappingOrig); }
                pos = Some((a.get() as i64, a.get() as i64));
            }
            StmtKind::Directive(Directive::End) => {
                match pos { None => { violated.insert(V::UnopenedOrig); } Some((o, e)) => blocks.push((o, e)) }
                pos = None;
            }
            StmtKind::Directive(Directive::External(l)) => binds.push((l.name.to_ascii_uppercase(), 0, true, l.span().start)),
            _ => match pos {
                None => { violated.insert(V::UndetAddrStmt); }
                Some((o, a)) => {
                    let n = size_of(s);
                    if n > 0 && a + n > 0xFE00 { violated.insert(V::BlockInIO); }
                    if n > 0 && a + n > 0x10000 { violated.insert(V::WrappingBlock); }
                    pos = Some((o, a + n));
                }
            },
        }
    }
    if pos.is_some() { violated.insert(V::UnclosedOrig); }
    for (k, b) in binds.iter().enumerate() {
        if binds[..k].iter().any(|c| c.0 == b.0 && c.1 != b.1) { violated.insert(V::OverlappingLabels); }
    }
    for (k, s) in p.iter().enumerate() {
        let Some((n, l)) = operand(s) else { continue };
        let u = l.name.to_ascii_uppercase();
        // the meaning of a name is its first binding
        let Some(first) = binds.iter().find(|b| b.0 == u) else { violated.insert(V::CouldNotFindLabel); continue };
        if n == 0 { continue; }
        if first.2 { violated.insert(V::OffsetExternal); }
        else if let Some((_, a)) = place[k] {
            if field(n, first.1, a).is_none() { violated.insert(if n == 9 { V::Offset9 } else { V::Offset11 }); }
        }
    }
    let ne: Vec<_> = blocks.iter().filter(|b| b.0 < b.1).collect();
    for x in 0..ne.len() { for y in 0..x {
        if ne[x].0 < ne[y].1 && ne[y].0 < ne[x].1 { violated.insert(V::OverlappingBlocks); }
    } }
    Layout { place, binds, violated, blocks }
}

/// The words of a statement placed at `a`, encoded from the ISA tables.
fn words(s: &Stmt, a: i64, lay: &Layout) -> Vec<Option<u16>> {
    let addr = |l: &Label| lay.first(&l.name).map(|b| b.1).unwrap_or(0);
    let rel = |n: u32, l: &Label| field(n, addr(l), a).unwrap_or(0);
    fn pc<const N: u32>(o: &PCOffset<i16, N>, rel: &dyn Fn(u32, &Label) -> u16) -> u16 {
        match o { PCOffset::Offset(v) => (v.get() as u16) & ((1u16 << N) - 1), PCOffset::Label(l) => rel(N, l) }
    }
    fn ior(o: &ImmOrReg<5>) -> u16 {
        match o { ImmOrReg::Imm(v) => 0x20 | ((v.get() as u16) & 0x1F), ImmOrReg::Reg(r) => r.reg_no() as u16 }
    }
    let r = |x: &lc3_ensemble::ast::Reg| x.reg_no() as u16;
    match &s.nucleus {
        StmtKind::Directive(Directive::Fill(PCOffset::Offset(v))) => vec![Some(v.get())],
        StmtKind::Directive(Directive::Fill(PCOffset::Label(l))) => vec![Some(addr(l) as u16)],
        StmtKind::Directive(Directive::Blkw(n)) => vec![None; n.get() as usize],
        StmtKind::Directive(Directive::Stringz(t)) => t.bytes().map(|b| Some(b as u16)).chain([Some(0)]).collect(),
        StmtKind::Directive(_) => vec![],
        StmtKind::Instr(x) => {
            use AsmInstr::*;
            let w = match x {
                ADD(d, a1, o) => 0x1000 | r(d) << 9 | r(a1) << 6 | ior(o),
                AND(d, a1, o) => 0x5000 | r(d) << 9 | r(a1) << 6 | ior(o),
                BR(cc, o) => ((*cc as u16) << 9) | pc(o, &rel),
                JMP(b) => 0xC000 | r(b) << 6,
                JSR(o) => 0x4800 | pc(o, &rel),
                JSRR(b) => 0x4000 | r(b) << 6,
                LD(d, o) => 0x2000 | r(d) << 9 | pc(o, &rel),
                LDI(d, o) => 0xA000 | r(d) << 9 | pc(o, &rel),
                LDR(d, b, o) => 0x6000 | r(d) << 9 | r(b) << 6 | ((o.get() as u16) & 0x3F),
                LEA(d, o) => 0xE000 | r(d) << 9 | pc(o, &rel),
                NOT(d, a1) => 0x9000 | r(d) << 9 | r(a1) << 6 | 0x3F,
                RET => 0xC1C0,
                RTI => 0x8000,
                ST(d, o) => 0x3000 | r(d) << 9 | pc(o, &rel),
                STI(d, o) => 0xB000 | r(d) << 9 | pc(o, &rel),
                STR(d, b, o) => 0x7000 | r(d) << 9 | r(b) << 6 | ((o.get() as u16) & 0x3F),
                TRAP(v) => 0xF000 | v.get(),
                NOP(o) => pc(o, &rel),
                GETC => 0xF020, OUT => 0xF021, PUTC => 0xF021, PUTS => 0xF022, IN => 0xF023, PUTSP => 0xF024, HALT => 0xF025,
            };
            vec![Some(w)]
        }
    }
}
pub fn expected_image(p: &[Stmt], lay: &Layout) -> BTreeMap<u16, Option<u16>> {
    let mut m = BTreeMap::new();
    for (k, s) in p.iter().enumerate() {
        if let Some((_, a)) = lay.place[k] {
            for (j, w) in words(s, a, lay).into_iter().enumerate() { m.insert((a + j as i64) as u16, w); }
        }
    }
    m
}
pub fn expected_labels(lay: &Layout) -> BTreeMap<String, (u16, bool)> {
    let mut m = BTreeMap::new();
    for b in &lay.binds { m.entry(b.0.clone()).or_insert((b.1 as u16, b.2)); }
    m
}

// ------------------------------------------------------------------------------------------
// generator
// ------------------------------------------------------------------------------------------
#[derive(Clone, Debug)]
enum Opnd { Num(i64), Lab(String), AnyLab }
#[derive(Clone, Debug)]
enum Nuc {
    Orig(i64), End, Ext(String), Fill(Opnd), Blkw(u16), Str(String),
    /// mnemonic, leading operands, optional PC-relative operand of the given width
    Ins(&'static str, String, Option<(u32, Opnd)>),
}
#[derive(Clone, Debug)]
struct It { labels: Vec<String>, nuc: Nuc }
impl It {
    fn size(&self) -> i64 {
        match &self.nuc {
            Nuc::Orig(_) | Nuc::End | Nuc::Ext(_) => 0,
            Nuc::Fill(_) | Nuc::Ins(..) => 1,
            Nuc::Blkw(n) => *n as i64,
            Nuc::Str(s) => s.len() as i64 + 1,
        }
    }
}

const STEMS: &[&str] = &["loop", "Done", "a", "Zz9", "_tmp", "LABEL_1", "data", "msg", "ptr", "far", "k", "Q",
    "start", "end_", "mixEd", "y2", "again", "Table", "s_1", "fooBar", "next", "OUTER", "inner", "w"];
const EXTS: &[&str] = &["ext_sym", "PRINTF", "Lib_fn", "gVar"];

fn recase(r: &mut Rng, s: &str) -> String {
    match r.below(4) {
        0 => s.to_string(),
        1 => s.to_ascii_uppercase(),
        2 => s.to_ascii_lowercase(),
        _ => s.chars().map(|c| if r.chance(1, 2) { c.to_ascii_uppercase() } else { c.to_ascii_lowercase() }).collect(),
    }
}
fn num(r: &mut Rng, v: i64) -> String {
    if v >= 0 {
        match r.below(3) { 0 => format!("#{v}"), 1 => format!("{v}"), _ => format!("{}{:X}", if r.chance(1, 2) { "x" } else { "X" }, v) }
    } else {
        match r.below(3) { 0 => format!("#-{}", -v), 1 => format!("-{}", -v), _ => format!("x-{:X}", -v) }
    }
}
fn reg(r: &mut Rng) -> String { format!("{}{}", if r.chance(1, 2) { "R" } else { "r" }, r.below(8)) }
fn edge(r: &mut Rng, lo: i64, hi: i64) -> i64 {
    match r.below(6) { 0 => lo, 1 => hi, 2 => lo + 1, 3 => hi - 1, 4 => 0, _ => r.range(lo, hi) }
}
fn gen_string(r: &mut Rng) -> String {
    let n = match r.below(10) { 0 => 0, 1 => r.range(30, 120), 2 => 1, _ => r.range(1, 14) };
    let pool: Vec<char> = "abcXYZ 0129,.;:!?#-_()<>'/@".chars().collect();
    let mut s = String::new();
    for _ in 0..n {
        match r.below(40) {
            0 => s.push('é'), 1 => s.push('日'), 2 => s.push('😀'), 3 => s.push('\n'), 4 => s.push('"'), 5 => s.push('\\'),
            6 => s.push('\t'), 7 => s.push('\0'), 8 => s.push('ÿ'),
            _ => s.push(*r.pick(&pool)),
        }
    }
    s
}
fn render_string(s: &str) -> String {
    let mut o = String::from("\"");
    for c in s.chars() {
        match c { '\n' => o.push_str("\\n"), '"' => o.push_str("\\\""), '\\' => o.push_str("\\\\"), '\t' => o.push_str("\\t"),
                  '\0' => o.push_str("\\0"), '\r' => o.push_str("\\r"), c => o.push(c) }
    }
    o.push('"');
    o
}

/// one random memory-occupying or zero-size statement for the inside of a block
fn gen_stmt(r: &mut Rng) -> Nuc {
    let pcop = |r: &mut Rng, n: u32| -> Option<(u32, Opnd)> {
        let half = 1i64 << (n - 1);
        Some((n, if r.chance(3, 5) { Opnd::AnyLab } else { Opnd::Num(edge(r, -half, half - 1)) }))
    };
    match r.below(36) {
        0 | 1 => { let a = format!("{}, {}, {}", reg(r), reg(r), if r.chance(1, 2) { reg(r) } else { let v = edge(r, -16, 15); num(r, v) }); Nuc::Ins(if r.chance(1, 2) { "ADD" } else { "AND" }, a, None) }
        2 | 3 => Nuc::Ins(*r.pick(&["BR", "BRn", "BRz", "BRp", "BRnz", "BRnp", "BRzp", "BRnzp"]), String::new(), pcop(r, 9)),
        4 => Nuc::Ins("JMP", reg(r), None),
        5 | 6 => Nuc::Ins("JSR", String::new(), pcop(r, 11)),
        7 => Nuc::Ins("JSRR", reg(r), None),
        8 => Nuc::Ins("LD", format!("{}, ", reg(r)), pcop(r, 9)),
        9 => Nuc::Ins("LDI", format!("{}, ", reg(r)), pcop(r, 9)),
        10 => { let v = edge(r, -32, 31); Nuc::Ins("LDR", format!("{}, {}, {}", reg(r), reg(r), num(r, v)), None) }
        11 => Nuc::Ins("LEA", format!("{}, ", reg(r)), pcop(r, 9)),
        12 => Nuc::Ins("NOT", format!("{}, {}", reg(r), reg(r)), None),
        13 => Nuc::Ins("RET", String::new(), None),
        14 => Nuc::Ins("RTI", String::new(), None),
        15 => Nuc::Ins("ST", format!("{}, ", reg(r)), pcop(r, 9)),
        16 => Nuc::Ins("STI", format!("{}, ", reg(r)), pcop(r, 9)),
        17 => { let v = edge(r, -32, 31); Nuc::Ins("STR", format!("{}, {}, {}", reg(r), reg(r), num(r, v)), None) }
        18 => { let v = edge(r, 0, 255); Nuc::Ins("TRAP", format!("x{:X}", v), None) }
        19 => if r.chance(1, 2) { Nuc::Ins("NOP", String::new(), None) } else { Nuc::Ins("NOP", String::new(), pcop(r, 9)) },
        20 => Nuc::Ins(*r.pick(&["GETC", "OUT", "PUTC", "PUTS", "IN", "PUTSP", "HALT"]), String::new(), None),
        21..=24 => Nuc::Fill(if r.chance(1, 2) { Opnd::AnyLab } else if r.chance(1, 4) { let v = edge(r, -32768, -1); Opnd::Num(v) } else { let v = edge(r, 0, 65535); Opnd::Num(v) }),
        25 | 26 => Nuc::Blkw(match r.below(8) { 0 => 1, 1 => r.range(100, 600) as u16, _ => r.range(1, 12) as u16 }),
        27 | 28 => Nuc::Str(gen_string(r)),
        29 => Nuc::Ext(EXTS[r.below(EXTS.len() as u64) as usize].to_string()),
        _ => Nuc::Ins(*r.pick(&["HALT", "RET", "PUTS", "GETC"]), String::new(), None),
    }
}

struct Gen { items: Vec<It>, used: Vec<String>, faults: Vec<&'static str> }

fn fresh_label(r: &mut Rng, g: &mut Gen) -> String {
    for _ in 0..8 {
        let s = STEMS[r.below(STEMS.len() as u64) as usize];
        let name = if r.chance(1, 3) { format!("{s}{}", r.below(4)) } else { s.to_string() };
        if !g.used.iter().any(|u| u.eq_ignore_ascii_case(&name)) { g.used.push(name.clone()); return recase(r, &name); }
    }
    let name = format!("L{}", g.used.len());
    g.used.push(name.clone());
    name
}

fn gen_block_body(r: &mut Rng, g: &mut Gen, n: usize) -> Vec<It> {
    let mut v = vec![];
    for _ in 0..n {
        let nuc = gen_stmt(r);
        let mut labels = vec![];
        if r.chance(1, 3) { labels.push(fresh_label(r, g)); if r.chance(1, 5) { labels.push(fresh_label(r, g)); } }
        // the same label twice on one address (not a conflict)
        if !labels.is_empty() && r.chance(1, 25) { let l = labels[0].clone(); labels.push(recase(r, &l)); }
        v.push(It { labels, nuc });
    }
    // distance scenario: a PC-relative reference at, inside or one past its field limit
    if r.chance(1, 4) {
        let n = if r.chance(1, 2) { 9u32 } else { 11 };
        let half = 1i64 << (n - 1);
        let tgt = fresh_label(r, g);
        let mn: (&'static str, String) = if n == 11 { ("JSR", String::new()) } else {
            match r.below(4) { 0 => ("BRnzp", String::new()), 1 => ("LD", format!("{}, ", reg(r))), 2 => ("LEA", format!("{}, ", reg(r))), _ => ("ST", format!("{}, ", reg(r))) } };
        let user = It { labels: vec![], nuc: Nuc::Ins(mn.0, mn.1, Some((n, Opnd::Lab(recase(r, &tgt))))) };
        let at = r.below(v.len() as u64 + 1) as usize;
        if r.chance(1, 2) {
            // forward: offset = gap words between
            let off = *r.pick(&[half - 2, half - 1, half - 1, half - 1, half]);
            v.insert(at, user);
            v.insert(at + 1, It { labels: vec![], nuc: Nuc::Blkw(off.max(1) as u16) });
            v.insert(at + 2, It { labels: vec![tgt], nuc: Nuc::Ins("HALT", String::new(), None) });
            if off == half { g.faults.push("offset_past_limit"); }
        } else {
            // backward: offset = -(gap + 2)  (target, gap, user)
            let off = *r.pick(&[-half + 1, -half, -half, -half, -half - 1]);
            v.insert(at, It { labels: vec![tgt], nuc: Nuc::Ins("RET", String::new(), None) });
            v.insert(at + 1, It { labels: vec![], nuc: Nuc::Blkw((-off - 2) as u16) });
            v.insert(at + 2, user);
            if off == -half - 1 { g.faults.push("offset_past_limit"); }
        }
    }
    v
}

/// A program as a list of items (with `AnyLab` operands still open).
fn gen_program(r: &mut Rng) -> Gen {
    let mut g = Gen { items: vec![], used: vec![], faults: vec![] };
    let nblocks = match r.below(12) { 0 => 0, 1..=4 => 1, 5..=8 => 2, 9 | 10 => 3, _ => 4 };
    let mut placed: Vec<(i64, i64)> = vec![];
    let mut blocks: Vec<Vec<It>> = vec![];
    for _ in 0..nblocks {
        let n = match r.below(10) { 0 => 0, 1 => r.range(12, 25) as usize, _ => r.range(1, 9) as usize };
        let mut body = gen_block_body(r, &mut g, n);
        if r.chance(1, 24) { let k = r.range(2, 20) as u16; body.insert(0, It { labels: vec![], nuc: Nuc::Blkw(k) }); g.faults.push("first_stmt_at_top"); }
        let top = matches!(g.faults.last(), Some(&"first_stmt_at_top"));
        let len: i64 = body.iter().map(|x| x.size()).sum();
        // origin
        let origin = match if top { 5 } else { r.below(16) } {
            0 | 1 => { // end placed at a boundary
                let e = *r.pick(&[0xFDFFi64, 0xFE00, 0xFE00, 0xFE00, 0xFE01, 0xFFFF, 0x10000, 0x10001]);
                if e > 0xFE00 { g.faults.push("block_past_limit"); }
                (e - len).clamp(0, 0xFFFF)
            }
            2 | 3 if !placed.is_empty() => { // relative to an earlier block: touching / overlapping, after or before it
                let (s, e) = *r.pick(&placed);
                let o = match r.below(10) { 0 | 8 => e, 1 => e - 1, 2 | 9 => s - len, 3 => s - len + 1, 4 => s, 5 => s + 1, 6 => e + 1, _ => s - len - 1 };
                o.clamp(0, 0xFFFF)
            }
            4 => *r.pick(&[0i64, 0, 1, 0x2FFF, 0x3000, 0x3000, 0xFDFF, 0xFE00, 0xFE01, 0xFFFF]),
            5 if top => { // the first memory-occupying statement ends at / one short of / one past x10000
                let first = body.iter().map(|x| x.size()).find(|&n| n > 0).unwrap_or(1);
                (*r.pick(&[0xFFFFi64, 0x10000, 0x10001, 0x10002]) - first).clamp(0, 0xFFFF)
            }
            5 | 6 => r.range(0, 0xFFFF),
            _ => (r.range(0, 0xF0) << 8) + if r.chance(1, 2) { 0 } else { r.range(0, 255) },
        };
        placed.push((origin, origin + len));
        let mut b = vec![It { labels: vec![], nuc: Nuc::Orig(origin) }];
        b.extend(body);
        let mut endl = vec![];
        if r.chance(1, 8) { endl.push(fresh_label(r, &mut g)); }
        b.push(It { labels: endl, nuc: Nuc::End });
        blocks.push(b);
    }
    // externals outside blocks: before / between / after
    let mut items: Vec<It> = vec![];
    let ext_out = |r: &mut Rng, items: &mut Vec<It>| {
        if r.chance(1, 6) { items.push(It { labels: vec![], nuc: Nuc::Ext(EXTS[r.below(EXTS.len() as u64) as usize].to_string()) }); }
    };
    ext_out(r, &mut items);
    for b in blocks { items.extend(b); ext_out(r, &mut items); }
    g.items = items;

    // ---- injected faults ----
    let nf = match r.below(20) { 0..=12 => 0, 13..=16 => 1, 17 | 18 => 2, _ => 3 };
    for _ in 0..nf {
        let n = g.items.len();
        let idx_of = |items: &[It], f: &dyn Fn(&It) -> bool, r: &mut Rng| -> Option<usize> {
            let v: Vec<usize> = items.iter().enumerate().filter(|(_, x)| f(x)).map(|(k, _)| k).collect();
            if v.is_empty() { None } else { Some(*r.pick(&v)) }
        };
        match r.below(11) {
            0 => if let Some(k) = idx_of(&g.items, &|x| matches!(x.nuc, Nuc::End), r) { g.items.remove(k); g.faults.push("missing_end"); },
            1 => { let k = r.below(n as u64 + 1) as usize; g.items.insert(k, It { labels: vec![], nuc: Nuc::End }); g.faults.push("extra_end"); }
            2 => if let Some(k) = idx_of(&g.items, &|x| matches!(x.nuc, Nuc::Orig(_)), r) { g.items.remove(k); g.faults.push("missing_orig"); },
            3 => { let k = r.below(n as u64 + 1) as usize; let o = r.range(0, 0xFDFF); g.items.insert(k, It { labels: vec![], nuc: Nuc::Orig(o) }); g.faults.push("extra_orig"); }
            4 => { // a statement (maybe labelled) outside every block: at the start, the end or between blocks
                let spots: Vec<usize> = (0..=n).filter(|&k| k == 0 || k == n || matches!(g.items[k - 1].nuc, Nuc::End)).collect();
                let k = *r.pick(&spots);
                let labels = if r.chance(1, 2) { vec![fresh_label(r, &mut g)] } else { vec![] };
                let nuc = if labels.is_empty() || r.chance(1, 2) { gen_stmt(r) } else { Nuc::Ext(EXTS[0].to_string()) };
                g.items.insert(k, It { labels, nuc }); g.faults.push("outside_block");
            }
            5 => { // duplicate label in another case at another statement
                let defs: Vec<String> = g.items.iter().flat_map(|x| x.labels.clone()).collect();
                if let (false, Some(k)) = (defs.is_empty(), idx_of(&g.items, &|x| !matches!(x.nuc, Nuc::Orig(_)), r)) {
                    let d = r.pick(&defs).clone(); let l = recase(r, &d);
                    g.items[k].labels.push(l); g.faults.push("duplicate_label");
                }
            }
            6 => if let Some(k) = idx_of(&g.items, &|x| matches!(x.nuc, Nuc::Ins(_, _, Some(_)) | Nuc::Fill(_)), r) { // undefined label
                let name = format!("undef_{}", r.below(3));
                match &mut g.items[k].nuc { Nuc::Ins(_, _, Some((_, o))) => *o = Opnd::Lab(name), Nuc::Fill(o) => *o = Opnd::Lab(name), _ => {} }
                g.faults.push("undefined_label");
            },
            7 => if let Some(k) = idx_of(&g.items, &|x| matches!(x.nuc, Nuc::Ins(_, _, Some(_))), r) { // external in a PC-relative operand
                let e = EXTS[r.below(EXTS.len() as u64) as usize];
                if let Nuc::Ins(_, _, Some((_, o))) = &mut g.items[k].nuc { *o = Opnd::Lab(recase(r, e)); }
                let at = r.below(g.items.len() as u64 + 1) as usize;
                g.items.insert(at, It { labels: vec![], nuc: Nuc::Ext(e.to_string()) });
                g.faults.push("external_pcrel");
            },
            8 => if let Some(k) = idx_of(&g.items, &|x| matches!(x.nuc, Nuc::Orig(_)), r) { // label on an .orig line
                let l = fresh_label(r, &mut g); g.items[k].labels.push(l); g.faults.push("label_on_orig");
            },
            9 => { // an external declared under the name of a defined label
                let defs: Vec<String> = g.items.iter().flat_map(|x| x.labels.clone()).collect();
                if !defs.is_empty() {
                    let d = r.pick(&defs).clone(); let l = recase(r, &d);
                    let at = r.below(g.items.len() as u64 + 1) as usize;
                    g.items.insert(at, It { labels: vec![], nuc: Nuc::Ext(l) }); g.faults.push("external_vs_label");
                }
            }
            _ => if let Some(k) = idx_of(&g.items, &|x| matches!(x.nuc, Nuc::Orig(_)), r) { // move a block
                let o = *r.pick(&[0xFDF0i64, 0xFE00, 0xFFF0, 0xFFFF, 0x3000]);
                g.items[k].nuc = Nuc::Orig(o); g.faults.push("moved_block");
            },
        }
    }
    resolve_operands(r, &mut g);
    g
}

/// Fill the open label operands: PC-relative ones prefer a label in reach, `.fill` takes any
/// label or an external.
fn resolve_operands(r: &mut Rng, g: &mut Gen) {
    // positional layout of the items
    let mut pos: Option<i64> = None;
    let mut at = vec![];
    let mut defs: Vec<(String, i64)> = vec![];
    let mut exts: Vec<String> = vec![];
    for x in &g.items {
        at.push(pos);
        if let Some(a) = pos { for l in &x.labels { defs.push((l.clone(), a)); } }
        match &x.nuc {
            Nuc::Orig(o) => pos = Some(*o),
            Nuc::End => pos = None,
            Nuc::Ext(e) => exts.push(e.clone()),
            _ => pos = pos.map(|a| a + x.size()),
        }
    }
    for (k, x) in g.items.iter_mut().enumerate() {
        let a = at[k].unwrap_or(0x3000);
        match &mut x.nuc {
            Nuc::Ins(_, _, Some((n, o))) if matches!(o, Opnd::AnyLab) => {
                let near: Vec<&(String, i64)> = defs.iter().filter(|d| field(*n, d.1, a).is_some()).collect();
                *o = if !near.is_empty() && !r.chance(1, 25) { let d = r.pick(&near).0.clone(); Opnd::Lab(recase(r, &d)) }
                     else if !defs.is_empty() && r.chance(1, 6) { let d = r.pick(&defs).0.clone(); Opnd::Lab(recase(r, &d)) }
                     else { let half = 1i64 << (*n - 1); Opnd::Num(edge(r, -half, half - 1)) };
            }
            Nuc::Fill(o) if matches!(o, Opnd::AnyLab) => {
                *o = if !exts.is_empty() && r.chance(1, 3) { let d = r.pick(&exts).clone(); Opnd::Lab(recase(r, &d)) }
                     else if !defs.is_empty() { let d = r.pick(&defs).0.clone(); Opnd::Lab(recase(r, &d)) }
                     else { Opnd::Num(r.range(0, 65535)) };
            }
            _ => {}
        }
    }
}

fn render(r: &mut Rng, g: &Gen) -> String {
    let crlf = r.below(8) == 0;
    let mut out = String::new();
    let eol = |r: &mut Rng, out: &mut String| { if crlf || r.chance(1, 40) { out.push_str("\r\n") } else { out.push('\n') } };
    let ws = |r: &mut Rng| -> &'static str { *r.pick(&[" ", "  ", "\t", "    ", " \t "]) };
    let comment = |r: &mut Rng| -> String { format!("; {}", *r.pick(&["loop here", "x3000 .end", "\"quoted\" stuff", "TODO: fix, maybe", ";;; banner", ""])) };
    if r.chance(1, 6) { out.push_str(&comment(r)); eol(r, &mut out); }
    if r.chance(1, 6) { eol(r, &mut out); }
    for x in &g.items {
        if r.chance(1, 8) { eol(r, &mut out); }
        if r.chance(1, 10) { out.push_str(ws(r)); out.push_str(&comment(r)); eol(r, &mut out); }
        if r.chance(1, 2) { out.push_str(ws(r)); }
        for l in &x.labels {
            out.push_str(l);
            if r.chance(1, 3) { out.push(':'); }
            if r.chance(1, 4) { if r.chance(1, 3) { out.push_str(ws(r)); out.push_str(&comment(r)); } eol(r, &mut out); if r.chance(1, 2) { out.push_str(ws(r)); } }
            else { out.push_str(ws(r)); }
        }
        let opnd = |r: &mut Rng, o: &Opnd| -> String { match o { Opnd::Num(v) => num(r, *v), Opnd::Lab(l) => l.clone(), Opnd::AnyLab => "#0".into() } };
        let text = match &x.nuc {
            Nuc::Orig(a) => format!("{} {}", recase(r, ".orig"), if r.chance(3, 4) { format!("x{:04X}", a) } else { num(r, *a) }),
            Nuc::End => recase(r, ".end"),
            Nuc::Ext(e) => format!("{} {}", recase(r, ".external"), e),
            Nuc::Fill(o) => format!("{} {}", recase(r, ".fill"), opnd(r, o)),
            Nuc::Blkw(n) => format!("{} {}", recase(r, ".blkw"), num(r, *n as i64)),
            Nuc::Str(s) => format!("{} {}", recase(r, ".stringz"), render_string(s)),
            Nuc::Ins(m, pre, o) => {
                let pre = pre.replace(", ", if r.chance(1, 4) { "," } else { ", " });
                let mut t = recase(r, m);
                if !pre.is_empty() || o.is_some() { t.push_str(ws(r)); }
                t.push_str(&pre);
                if let Some((_, o)) = o { t.push_str(&opnd(r, o)); }
                t
            }
        };
        out.push_str(&text);
        if r.chance(1, 5) { out.push_str(ws(r)); out.push_str(&comment(r)); } else if r.chance(1, 6) { out.push_str(ws(r)); }
        eol(r, &mut out);
    }
    if r.chance(1, 5) { out.push_str(&comment(r)); }       // last line without a newline
    if r.chance(1, 10) { while out.ends_with(['\n', '\r']) { out.pop(); } }
    out
}

// ------------------------------------------------------------------------------------------
// running one program
// ------------------------------------------------------------------------------------------
fn esc(s: &str) -> String { s.escape_debug().to_string() }
fn image_of(o: &ObjectFile) -> (BTreeMap<u16, Option<u16>>, bool) {
    let mut m = BTreeMap::new();
    let mut dup = false;
    for (a, w) in o.addr_iter() { if m.insert(a, w).is_some() { dup = true; } }
    (m, dup)
}
fn line_of(src: &str, off: usize) -> usize { src.as_bytes()[..off.min(src.len())].iter().filter(|&&b| b == b'\n').count() }

struct Counts { ok: i64, err: BTreeMap<String, i64>, panics: i64 }

/// `parsed` says the statements came out of the real parser for `src` (then the panic-freedom,
/// span and line-table oracles apply).
fn run_program(ctx: &Ctx, shard: usize, r: &mut Rng, p: &[Stmt], src: &str, parsed: bool, c: &mut Counts) {
    let stmts_t = t_stmts(p);
    let lay = layout(p);
    let in_plain = L(vec![b(false), t_src(None), stmts_t.clone()]);
    let in_debug = L(vec![b(true), t_src(Some(src)), stmts_t.clone()]);
    let res_plain = catch(|| assemble(p.to_vec()));
    let res_debug = catch(|| assemble_debug(p.to_vec(), src));
    ctx.case_to(shard, "asm.assemble", &in_plain, &t_res(&res_plain, t_obj));
    ctx.case_to(shard, "asm.assemble", &in_debug, &t_res(&res_debug, t_obj));
    let replay = format!("asm.assemble\t{in_debug}");
    let what = |m: String| format!("{m}; source = \"{}\"", esc(src));

    match &res_debug { None => c.panics += 1, Some(Ok(_)) => c.ok += 1, Some(Err(e)) => *c.err.entry(format!("{:?}", e.kind).split('(').next().unwrap().to_string()).or_insert(0) += 1 }

    // ---------------- C02: accepts exactly the well-formed programs ----------------
    for (mode, res) in [("assemble", &res_plain), ("assemble_debug", &res_debug)] {
        match res {
            None => if parsed { ctx.fail("C02", "panics", what(format!("{mode} panics on a parsed program")), replay.clone()) },
            Some(Ok(_)) => if !lay.wf() { ctx.fail("C02", "accepts_ill_formed", what(format!("{mode} accepts a program violating {:?}", lay.violated)), replay.clone()) },
            Some(Err(e)) => {
                if lay.wf() {
                    ctx.fail("C02", "rejects_well_formed", what(format!("{mode} rejects a well-formed program with {:?}", e.kind)), replay.clone());
                    // no image, hence no statement placed where its .orig and the sizes before it imply
                    ctx.fail("C01", "no_image_for_well_formed", what(format!("{mode} gives no object file for a well-formed program ({:?})", e.kind)), replay.clone());
                }
                else if !v_of(&e.kind).is_some_and(|v| lay.violated.contains(&v)) {
                    ctx.fail("C02", "wrong_error_kind", what(format!("{mode} reports {:?} but the violated conditions are {:?}", e.kind, lay.violated)), replay.clone())
                }
            }
        }
    }
    // ---------------- C01: image and labels ----------------
    let sym_plain = catch(|| SymbolTable::new(p, None));
    if let (Some(Ok(o1)), Some(Ok(o2))) = (&res_plain, &res_debug) {
        let (m1, d1) = image_of(o1);
        let (m2, d2) = image_of(o2);
        if m1 != m2 || d1 || d2 { ctx.fail("C01", "debug_changes_image", what("assemble and assemble_debug give different images (or an address twice)".into()), replay.clone()) }
        if lay.wf() {
            let want = expected_image(p, &lay);
            if m1 != want {
                let diff = want.iter().find(|(a, w)| m1.get(a) != Some(w)).map(|(a, w)| format!("x{a:04X}: expected {w:x?}, found {:x?}", m1.get(a)))
                    .or_else(|| m1.iter().find(|(a, _)| !want.contains_key(a)).map(|(a, w)| format!("x{a:04X}: defined as {w:x?} but no statement is placed there")));
                ctx.fail("C01", "image_differs", what(format!("image is not the positional encoding: {}", diff.unwrap_or_default())), replay.clone());
            }
            if let Some(Ok(sym)) = &sym_plain {
                let got: BTreeMap<String, (u16, bool)> = sym.label_iter().map(|(n, a, e)| (n.to_string(), (a, e))).collect();
                if got != expected_labels(&lay) { ctx.fail("C01", "labels_differ", what(format!("labels {:?}, expected {:?}", got, expected_labels(&lay))), replay.clone()) }
            }
        }
    } else if let (Some(a), Some(bb)) = (&res_plain, &res_debug) {
        let k = |x: &Result<ObjectFile, AsmErr>| x.as_ref().err().map(|e| e.kind);
        if k(a) != k(bb) { ctx.fail("C01", "debug_changes_verdict", what(format!("assemble: {:?}, assemble_debug: {:?}", k(a), k(bb))), replay.clone()) }
    }

    // ---------------- C26: error spans ----------------
    if parsed {
        for res in [&res_plain, &res_debug] {
            if let Some(Err(e)) = res {
                let sp = catch(|| (e.span.first(), e.span.iter().cloned().collect::<Vec<_>>()));
                match sp {
                    None => ctx.fail("C26", "span_query_panics", what(format!("querying the spans of {:?} panics", e.kind)), replay.clone()),
                    Some((_, all)) => {
                        if all.is_empty() { ctx.fail("C26", "empty_span_list", what(format!("{:?} carries no span", e.kind)), replay.clone()) }
                        for s in &all {
                            if !(s.start <= s.end && s.end <= src.len() && src.is_char_boundary(s.start) && src.is_char_boundary(s.end)) {
                                ctx.fail("C26", "span_outside_source", what(format!("{:?} span {:?} outside the source (len {})", e.kind, s, src.len())), replay.clone());
                                continue;
                            }
                            use AsmErrKind as K;
                            let text = src[s.clone()].to_ascii_uppercase();
                            let label_ok = match e.kind {
                                K::OverlappingLabels => lay.binds.iter().any(|b| b.0 == text && lay.binds.iter().any(|c| c.0 == b.0 && c.1 != b.1)),
                                K::UndetAddrLabel => p.iter().zip(&lay.place).any(|(s, pl)| pl.is_none() && s.labels.iter().any(|l| l.name.to_ascii_uppercase() == text)),
                                K::CouldNotFindLabel => p.iter().any(|s| operand(s).is_some_and(|(_, l)| l.name.to_ascii_uppercase() == text && lay.first(&l.name).is_none())),
                                K::OffsetExternal => p.iter().any(|s| operand(s).is_some_and(|(n, l)| n > 0 && l.name.to_ascii_uppercase() == text)) && lay.binds.iter().any(|b| b.0 == text && b.2),
                                K::OffsetNewErr(_) => p.iter().any(|s| operand(s).is_some_and(|(n, l)| n > 0 && l.name.to_ascii_uppercase() == text)),
                                _ => true,
                            };
                            if !label_ok { ctx.fail("C26", "label_span_wrong", what(format!("{:?} span {:?} covers \"{}\", not a spelling of an offending label", e.kind, s, esc(&src[s.clone()]))), replay.clone()) }
                        }
                    }
                }
            }
        }
    }

    // ---------------- symbol table: correspondence + C23 / C24 ----------------
    let sym_debug = catch(|| SymbolTable::new(p, Some(src)));
    let in_p1 = L(vec![t_src(Some(src)), stmts_t.clone()]);
    ctx.case_to(shard, "asm.pass1", &in_p1, &t_res(&sym_debug, t_symtab));
    ctx.case_to(shard, "asm.pass1", &L(vec![t_src(None), stmts_t]), &t_res(&sym_plain, t_symtab));
    let rep23 = format!("asm.pass1\t{in_p1}");
    if let (true, Some(Err(e))) = (lay.wf(), &sym_debug) {
        // a well-formed program without a symbol table: none of its labels / lines can be looked up
        if !lay.binds.is_empty() { ctx.fail("C23", "no_table_for_well_formed", what(format!("SymbolTable::new fails with {:?} on a well-formed program defining {} label(s)", e.kind, lay.binds.len())), rep23.clone()); }
        ctx.fail("C24", "no_table_for_well_formed", what(format!("SymbolTable::new fails with {:?} on a well-formed program", e.kind)), rep23.clone());
    }
    let Some(Ok(sym)) = &sym_debug else { return };
    let sym_t = t_symtab(sym);

    // names: every label of the program in several spellings, plus absent ones
    let mut names: Vec<String> = vec![];
    for bnd in &lay.binds {
        let orig = &src.get(bnd.3..bnd.3 + bnd.0.len()).unwrap_or(&bnd.0).to_string();
        names.push(orig.clone()); names.push(bnd.0.clone()); names.push(bnd.0.to_ascii_lowercase()); names.push(recase(r, orig));
    }
    names.sort(); names.dedup();
    let absent: Vec<String> = ["nosuch", "LOOP_DE_LOOP", "", "R0", "a_"].iter().map(|s| s.to_string()).filter(|n| lay.first(n).is_none()).collect();
    let all_names: Vec<&String> = names.iter().chain(absent.iter()).collect();
    let q = catch(|| all_names.iter().map(|n| (sym.lookup_label(n), sym.get_label_source(n))).collect::<Vec<_>>());
    let listing = catch(|| { let mut v: Vec<(String, u16, bool)> = sym.label_iter().map(|(n, a, e)| (n.to_string(), a, e)).collect(); v.sort(); v });
    let (Some(q), Some(listing)) = (q, listing) else {
        ctx.fail("C23", "query_panics", what("a label query panics".into()), rep23.clone());
        return;
    };
    ctx.case_to(shard, "asm.lookup_label", &L(vec![sym_t.clone(), list(all_names.iter(), |n| chars(n))]), &list(q.iter(), |x| opt(x.0, |a| i(a))));
    ctx.case_to(shard, "asm.get_label_source", &L(vec![sym_t.clone(), list(all_names.iter(), |n| chars(n))]), &list(q.iter(), |x| opt(x.1.clone(), |s| L(vec![iu(s.start), iu(s.end)]))));
    ctx.case_to(shard, "asm.label_iter", &L(vec![sym_t.clone()]), &list(listing.iter(), |(n, a, e)| L(vec![chars(n), i(*a), b(*e)])));
    if lay.violated.iter().all(|v| !matches!(v, V::OverlappingLabels | V::UndetAddrLabel)) {
        // (pass 1 succeeded, so the bindings are consistent)
        let want = expected_labels(&lay);
        for (n, (addr, sp)) in all_names.iter().zip(&q) {
            match lay.first(n) {
                Some(bnd) => {
                    if *addr != Some(bnd.1 as u16) { ctx.fail("C23", "lookup_wrong", what(format!("lookup_label(\"{n}\") = {addr:?}, the label is at x{:04X}", bnd.1)), rep23.clone()) }
                    let want_sp = bnd.3..bnd.3 + n.len();
                    if sp.as_ref() != Some(&want_sp) { ctx.fail("C23", "source_wrong", what(format!("get_label_source(\"{n}\") = {sp:?}, the first occurrence is at {want_sp:?}")), rep23.clone()) }
                    else if !src.get(want_sp.clone()).is_some_and(|t| t.eq_ignore_ascii_case(n)) { ctx.fail("C23", "source_text_wrong", what(format!("get_label_source(\"{n}\") = {sp:?} does not cover the label")), rep23.clone()) }
                }
                None => if addr.is_some() || sp.is_some() { ctx.fail("C23", "absent_found", what(format!("\"{n}\" is not a label of the program but lookup = {addr:?}, source = {sp:?}")), rep23.clone()) },
            }
        }
        let got: BTreeMap<String, (u16, bool)> = listing.iter().map(|(n, a, e)| (n.clone(), (*a, *e))).collect();
        if got != want || got.len() != listing.len() { ctx.fail("C23", "listing_wrong", what(format!("label_iter = {listing:?}, expected {want:?}")), rep23.clone()) }
        // reverse lookups: every label address and a few others
        let mut addrs: Vec<u16> = want.values().map(|v| v.0).collect();
        addrs.extend([0u16, 1, 0x3000, 0xFDFF, 0xFFFF]); addrs.push(r.u16());
        addrs.sort(); addrs.dedup();
        let rv = catch(|| addrs.iter().map(|a| sym.rev_lookup_label(*a).map(|s| s.to_string())).collect::<Vec<_>>()).unwrap_or_default();
        ctx.case_to(shard, "asm.rev_lookup_label", &L(vec![sym_t.clone(), list(addrs.iter(), |a| i(*a))]), &list(rv.iter(), |x| b(x.is_some())));
        for (a, x) in addrs.iter().zip(&rv) {
            let here: Vec<&String> = want.iter().filter(|(_, v)| v.0 == *a).map(|(k, _)| k).collect();
            match x {
                Some(n) => if !here.contains(&n) { ctx.fail("C23", "rev_wrong", what(format!("rev_lookup_label(x{a:04X}) = {n}, labels there: {here:?}")), rep23.clone()) },
                None => if !here.is_empty() { ctx.fail("C23", "rev_missing", what(format!("rev_lookup_label(x{a:04X}) = None, labels there: {here:?}")), rep23.clone()) },
            }
        }
    }

    // ---------------- C24: line <-> address ----------------
    let nlines = src.bytes().filter(|&c| c == b'\n').count() + 1;
    let lines: Vec<usize> = (0..nlines + 2).collect();
    let fw = catch(|| lines.iter().map(|l| sym.lookup_line(*l)).collect::<Vec<_>>());
    let table = catch(|| sym.line_iter().collect::<Vec<_>>());
    let (Some(fw), Some(table)) = (fw, table) else { ctx.fail("C24", "query_panics", what("a line query panics".into()), rep23.clone()); return; };
    ctx.case_to(shard, "asm.lookup_line", &L(vec![sym_t.clone(), list(lines.iter(), |l| iu(*l))]), &list(fw.iter(), |x| opt(*x, |a| i(a))));
    ctx.case_to(shard, "asm.line_iter", &L(vec![sym_t.clone()]), &list(table.iter(), |(l, a)| L(vec![iu(*l), i(*a)])));
    // expected table from the layout: memory-occupying statements only
    let mut want: BTreeMap<usize, u16> = BTreeMap::new();
    for (k, s) in p.iter().enumerate() {
        if let Some((_, a)) = lay.place[k] { if size_of(s) > 0 { want.insert(line_of(src, s.span.start), a as u16); } }
    }
    let mut addrs: Vec<u16> = want.values().copied().collect();
    for (k, s) in p.iter().enumerate() { if let Some((_, a)) = lay.place[k] { addrs.push((a + size_of(s)) as u16); addrs.push((a + size_of(s) / 2) as u16); } }
    addrs.extend([0u16, 0x3000, 0xFFFF]);
    addrs.sort(); addrs.dedup();
    let bw = catch(|| addrs.iter().map(|a| sym.rev_lookup_line(*a)).collect::<Vec<_>>()).unwrap_or_default();
    ctx.case_to(shard, "asm.rev_lookup_line", &L(vec![sym_t, list(addrs.iter(), |a| i(*a))]), &list(bw.iter(), |x| opt(*x, iu)));
    // (a symbol table can exist for a program whose blocks overlap: the object file does not)
    if parsed && lay.wf() {
        for (l, x) in lines.iter().zip(&fw) {
            if *x != want.get(l).copied() { ctx.fail("C24", if x.is_some() && !want.contains_key(l) { "line_without_memory_mapped" } else { "forward_wrong" },
                what(format!("lookup_line({l}) = {x:x?}, expected {:x?}", want.get(l))), rep23.clone()) }
        }
        let got: BTreeMap<usize, u16> = table.iter().copied().collect();
        let mut seen = BTreeSet::new();
        if table.iter().any(|(_, a)| !seen.insert(*a)) { ctx.fail("C24", "address_on_two_lines", what(format!("line table maps one address to two lines: {table:x?}")), rep23.clone()) }
        if got != want || got.len() != table.len() { ctx.fail("C24", "table_wrong", what(format!("line_iter = {table:x?}, expected {want:x?}")), rep23.clone()) }
        for (a, x) in addrs.iter().zip(&bw) {
            let back: Vec<usize> = want.iter().filter(|(_, v)| *v == a).map(|(k, _)| *k).collect();
            if back.len() <= 1 && *x != back.first().copied() { ctx.fail("C24", "backward_wrong", what(format!("rev_lookup_line(x{a:04X}) = {x:?}, expected {:?}", back.first())), rep23.clone()) }
        }
    }
}

// ------------------------------------------------------------------------------------------
// the directly built stream
// ------------------------------------------------------------------------------------------
fn mutate_direct(r: &mut Rng, p: &[Stmt], src: &str) -> Vec<Stmt> {
    let mut v: Vec<Stmt> = p.to_vec();
    match r.below(6) {
        0 => for s in &mut v { if let StmtKind::Directive(Directive::Blkw(n)) = &mut s.nucleus { if r.chance(1, 2) { *n = Offset::new(0).unwrap(); } } },
        1 => for s in &mut v { if r.chance(1, 3) { let a = r.below(src.len() as u64 + 40) as usize; s.span = a..a + r.below(5) as usize; } },
        2 => { if v.len() > 1 { let a = r.below(v.len() as u64) as usize; let bb = r.below(v.len() as u64) as usize; let (x, y) = (v[a].span.clone(), v[bb].span.clone()); v[a].span = y; v[bb].span = x; } }
        3 => for s in &mut v { s.span = 0..0; },
        4 => { if v.len() > 1 { let a = r.below(v.len() as u64) as usize; let bb = r.below(v.len() as u64) as usize; v.swap(a, bb); } }
        _ => { // two statements on one line: reuse the span of the previous statement
            for k in 1..v.len() { if r.chance(1, 4) { v[k].span = v[k - 1].span.clone(); } }
        }
    }
    v
}

/// Labels with non-ASCII letters that have a distinct upper-case form (the lexer's `\w` admits them after an
/// ASCII first letter).  Direct oracle only: the Coq model folds case for ASCII (and the ten characters whose
/// upper-casing is ASCII), so these programs are not recorded as correspondence cases.  "Compared ignoring case"
/// is Unicode upper-casing here, as everywhere else in the crate's label handling.
fn unicode_case_labels(ctx: &Ctx, r: &mut Rng) {
    let pairs: [(&str, &str); 8] = [("caf\u{e9}", "CAF\u{c9}"), ("z\u{e4}hler", "Z\u{c4}HLER"), ("se\u{f1}al", "SE\u{d1}AL"), ("gr\u{f6}\u{df}e", "GR\u{d6}SSE"),
                                    ("x\u{3bb}", "X\u{39b}"), ("d\u{434}", "D\u{414}"), ("a\u{e5}b", "A\u{c5}B"), ("n\u{f8}", "N\u{d8}")];
    for (lo, up) in pairs {
        let org = 0x3000 + r.below(0x100) as u16 * 16;
        let what = |m: String, src: &str| format!("{m}; source = \"{}\"", esc(src));
        // (1) the same label in two spellings at two addresses: must be rejected as a duplicate
        for (a, b) in [(lo, up), (up, lo)] {
            let src = format!(".orig x{org:04X}\n{a} .fill 1\n{b} .fill 2\n.end\n");
            let replay = format!("source\t{}", esc(&src));
            match catch(|| parse_ast(&src).ok().map(|p| (assemble(p.clone()).map(|_| ()).map_err(|e| e.kind), assemble_debug(p, &src).map(|_| ()).map_err(|e| e.kind)))) {
                Some(Some((x, y))) => for (mode, res) in [("assemble", x), ("assemble_debug", y)] {
                    match res {
                        Err(AsmErrKind::OverlappingLabels) => ctx.stat("unicode_labels.duplicate_rejected", 1),
                        Ok(()) => ctx.fail("C02", "accepts_ill_formed", what(format!("{mode} accepts a program that binds one label (two spellings differing in letter case) to two addresses"), &src), replay.clone()),
                        Err(k) => ctx.fail("C02", "wrong_error_kind", what(format!("{mode} reports {k:?} for a label bound to two addresses"), &src), replay.clone()),
                    }
                },
                Some(None) => ctx.stat("unicode_labels.unparsed", 1),
                None => ctx.fail("C02", "panics", what("assembling panics".into(), &src), replay.clone()),
            }
        }
        // (2) defined in one spelling, used in the other (PC-relative operand, .fill, .external + definition elsewhere): well formed
        for (def, usep) in [(lo, up), (up, lo)] {
            let src = format!(".orig x{org:04X}\nLD R0, {usep}\nLEA R1, {usep}\n.fill {usep}\n{def} .fill 7\n.end\n");
            let replay = format!("source\t{}", esc(&src));
            match catch(|| parse_ast(&src).ok().map(|p| assemble(p).map_err(|e| e.kind))) {
                Some(Some(Ok(o))) => {
                    ctx.stat("unicode_labels.use_accepted", 1);
                    let words: Vec<Option<u16>> = o.verif_blocks().into_iter().flat_map(|(_, w)| w).collect();
                    let want = vec![Some(0x2002u16), Some(0xE201), Some(org + 3), Some(7)];
                    if words != want { ctx.fail("C01", "image_differs", what(format!("image {words:x?}, expected {want:x?}"), &src), replay.clone()); }
                }
                Some(Some(Err(k))) => {
                    ctx.fail("C02", "rejects_well_formed", what(format!("assemble rejects a well-formed program with {k:?} (label defined and used in spellings differing in letter case)"), &src), replay.clone());
                    ctx.fail("C01", "no_image_for_well_formed", what(format!("assemble gives no object file for a well-formed program ({k:?})"), &src), replay.clone());
                }
                Some(None) => ctx.stat("unicode_labels.unparsed", 1),
                None => ctx.fail("C02", "panics", what("assembling panics".into(), &src), replay.clone()),
            }
        }
    }
}

pub fn run(ctx: &Ctx, _replay: Option<&str>) {
    { let mut r = Rng::new(ctx.seed ^ 0xC02); unicode_case_labels(ctx, &mut r); }
    let n = ctx.n(3000, 40_000) as usize;
    let base = Rng::new(ctx.seed);
    let stats = std::sync::Mutex::new((Counts { ok: 0, err: BTreeMap::new(), panics: 0 }, BTreeMap::<String, i64>::new()));
    par_for(n, |k| {
        let mut r = base.fork(k as u64);
        let mut c = Counts { ok: 0, err: BTreeMap::new(), panics: 0 };
        let mut st: BTreeMap<String, i64> = BTreeMap::new();
        let g = gen_program(&mut r);
        let src = render(&mut r, &g);
        for f in &g.faults { *st.entry(format!("fault.{f}")).or_insert(0) += 1; }
        *st.entry(format!("faults.{}", g.faults.len().min(3))).or_insert(0) += 1;
        match catch(|| parse_ast(&src)) {
            Some(Ok(p)) => {
                *st.entry("parsed".into()).or_insert(0) += 1;
                *st.entry("statements".into()).or_insert(0) += p.len() as i64;
                if k < 3 { ctx.sample(format!("program: \"{}\"", esc(&src))); }
                run_program(ctx, k, &mut r, &p, &src, true, &mut c);
                if k % 5 == 0 {
                    let q = mutate_direct(&mut r, &p, &src);
                    *st.entry("direct".into()).or_insert(0) += 1;
                    let mut c2 = Counts { ok: 0, err: BTreeMap::new(), panics: 0 };
                    run_program(ctx, k, &mut r, &q, &src, false, &mut c2);
                    *st.entry("direct.panics".into()).or_insert(0) += c2.panics;
                }
            }
            _ => { *st.entry("generator.parse_failed".into()).or_insert(0) += 1; if k < 50 { ctx.sample(format!("UNPARSED: \"{}\"", esc(&src))); } }
        }
        let mut s = stats.lock().unwrap();
        s.0.ok += c.ok; s.0.panics += c.panics;
        for (kk, v) in c.err { *s.0.err.entry(kk).or_insert(0) += v; }
        for (kk, v) in st { *s.1.entry(kk).or_insert(0) += v; }
    });
    // very long strings (the lexer stops at 65534 bytes; `s.len() as u16 + 1`)
    for (j, nbytes) in [65533usize, 65534, 65535, 65536, 65537].into_iter().enumerate() {
        let mut r = base.fork(1_000_000 + j as u64);
        let text = "a".repeat(nbytes);
        let p = vec![
            stmt(vec![], StmtKind::Directive(Directive::Orig(Offset::new(0).unwrap())), 0..5),
            stmt(vec![], StmtKind::Directive(Directive::Stringz(text)), 6..9),
            stmt(vec![label("tail", 10)], StmtKind::Instr(AsmInstr::HALT), 15..19),
            stmt(vec![], StmtKind::Directive(Directive::End), 20..24),
        ];
        let src = ".orig\n.st\ntail HALT\n.end\n";
        let mut c = Counts { ok: 0, err: BTreeMap::new(), panics: 0 };
        let in_plain = L(vec![b(false), t_src(None), t_stmts(&p)]);
        let res = catch(|| assemble(p.clone()));
        ctx.case("asm.assemble", &in_plain, &t_res(&res, t_obj));
        let sym = catch(|| SymbolTable::new(&p, Some(src)));
        ctx.case("asm.pass1", &L(vec![t_src(Some(src)), t_stmts(&p)]), &t_res(&sym, t_symtab));
        let _ = (&mut r, &mut c);
        ctx.stat("long_strings", 1);
    }
    let s = stats.into_inner().unwrap();
    ctx.stat("programs", n as i64);
    ctx.stat("accepted", s.0.ok);
    ctx.stat("panics_parsed_debug", s.0.panics);
    for (k, v) in s.0.err { ctx.stat(&format!("error.{k}"), v); }
    for (k, v) in s.1 { ctx.stat(&k, v); }
}
