//! C32 — DeviceHandler (src/sim/device.rs) and the MMIO arms of Simulator::read_mem / write_mem,
//! mmap_internal / munmap_internal (src/sim.rs).
//!
//! A history is a list of operations on a fresh Simulator: add_device / remove_device / set_keyboard /
//! set_display with recording devices, mmap_internal / munmap_internal, read_mem / write_mem
//! (privileged, untracked), device_handler.io_reset() / poll_interrupt().
//! Correspondence (devhandler.run): per operation the result, the calls the recording devices
//! received, the memory word at the operation's address and pc/psr/mcr/saved_sp.
//! Quick and thorough: ALL histories of length 4 over a 23-letter alphabet on the ports
//! KBSR, DDR, xFE10, xFFFE (MCR) and the non-I/O address xFDFF (prefix-closed, so every history of
//! length <= 4 is covered), plus random long histories over a wider alphabet.
//!
//! Failing-input search: an independent port table (owner map + id counter) predicts, from the
//! property text alone, which device (or internal register, or nothing) each access reaches, when
//! add_device succeeds, what remove_device frees and that ids are never reused.
use crate::ctx::{catch, par_for, Ctx};
use crate::rng::Rng;
use crate::tree::*;
use lc3_ensemble::sim::device::{ExternalDevice, Interrupt, NullDevice};
use lc3_ensemble::sim::mem::{MachineInitStrategy, Word};
use lc3_ensemble::sim::{InternalRegister, MMapInternalErr, MemAccessCtx, SimFlags, Simulator};
use std::collections::BTreeMap;
use std::sync::{Arc, Mutex};

const KBSR: u16 = 0xFE00;
const KBDR: u16 = 0xFE02;
const DSR: u16 = 0xFE04;
const DDR: u16 = 0xFE06;
const P: u16 = 0xFE10;
const Q: u16 = 0xFFFE;
const N: u16 = 0xFDFF;
const IO_START: u16 = 0xFE00;

type Event = (u16, u8, u16, u16);
type Log = Arc<Mutex<Vec<Event>>>;

#[derive(Clone, Copy, Debug, PartialEq)]
enum Intr { None, Vect(u8, u8), Ext(u16) }
#[derive(Clone, Copy, Debug, PartialEq)]
struct DevSpec { tag: u16, reads: bool, writes: bool, intr: Intr }

#[derive(Debug)]
struct Pay(u16);
impl std::fmt::Display for Pay { fn fmt(&self, f: &mut std::fmt::Formatter<'_>) -> std::fmt::Result { write!(f, "Pay({})", self.0) } }
impl std::error::Error for Pay {}

/// The recording device.
struct Rec { spec: DevSpec, count: u32, log: Log }
impl ExternalDevice for Rec {
    fn io_read(&mut self, addr: u16, effectful: bool) -> Option<u16> {
        self.log.lock().unwrap().push((self.spec.tag, 0, addr, effectful as u16));
        let ans = (self.spec.tag as u32 * 256 + self.count * 16 + (addr as u32 % 16)) as u16;
        if effectful { self.count += 1; }
        self.spec.reads.then_some(ans)
    }
    fn io_write(&mut self, addr: u16, data: u16) -> bool {
        self.log.lock().unwrap().push((self.spec.tag, 1, addr, data));
        self.count += 1;
        self.spec.writes
    }
    fn io_reset(&mut self) {
        self.log.lock().unwrap().push((self.spec.tag, 2, 0, 0));
        self.count += 1;
    }
    fn poll_interrupt(&mut self) -> Option<Interrupt> {
        self.log.lock().unwrap().push((self.spec.tag, 3, 0, 0));
        match self.spec.intr {
            Intr::None => None,
            Intr::Vect(v, p) => Some(Interrupt::vectored(v, p)),
            Intr::Ext(x) => Some(Interrupt::external(Pay(x))),
        }
    }
}

#[derive(Clone, Debug, PartialEq)]
enum Op {
    Add(Option<DevSpec>, Vec<u16>),
    Remove(u16),
    SetKeyboard(Option<DevSpec>),
    SetDisplay(Option<DevSpec>),
    Mmap(u16, u8),
    Munmap(u16),
    Read(u16, bool),
    Write(u16, u16),
    Reset,
    Poll,
}

fn t_intr(x: Intr) -> Tree {
    match x { Intr::None => L(vec![]), Intr::Vect(v, p) => L(vec![i(0), i(v), i(p)]), Intr::Ext(x) => L(vec![i(1), i(x)]) }
}
fn t_dev(d: &Option<DevSpec>) -> Tree {
    match d { None => L(vec![]), Some(d) => L(vec![i(d.tag), b(d.reads), b(d.writes), t_intr(d.intr)]) }
}
fn t_op(o: &Op) -> Tree {
    match o {
        Op::Add(d, a) => L(vec![i(0), t_dev(d), list(a.iter(), |x| i(*x))]),
        Op::Remove(id) => L(vec![i(1), i(*id)]),
        Op::SetKeyboard(d) => L(vec![i(2), t_dev(d)]),
        Op::SetDisplay(d) => L(vec![i(3), t_dev(d)]),
        Op::Mmap(a, r) => L(vec![i(4), i(*a), i(*r)]),
        Op::Munmap(a) => L(vec![i(5), i(*a)]),
        Op::Read(a, e) => L(vec![i(6), i(*a), b(*e)]),
        Op::Write(a, d) => L(vec![i(7), i(*a), i(*d)]),
        Op::Reset => L(vec![i(8)]),
        Op::Poll => L(vec![i(9)]),
    }
}
fn reg(r: u8) -> InternalRegister {
    match r { 0 => InternalRegister::PC, 1 => InternalRegister::PSR, 2 => InternalRegister::MCR, _ => InternalRegister::SavedSP }
}
fn op_addr(o: &Op) -> u16 {
    match o { Op::Read(a, _) | Op::Write(a, _) | Op::Mmap(a, _) | Op::Munmap(a) => *a, _ => N }
}

/// what one operation returned
#[derive(Clone, Debug, PartialEq)]
enum Res { Add(Option<u16>), Unit, Mmap(Option<u8>), Munmap(bool), Read(u16), Write, Poll(Intr), Panic }

#[derive(Clone, Debug)]
struct Obs { res: Res, events: Vec<Event>, word: u16, before: u16, pc: u16, psr: u16, mcr: bool, ssp: u16 }

fn parse_intr(x: &Option<Interrupt>) -> Intr {
    let Some(x) = x else { return Intr::None };
    let s = format!("{x:?}");
    let num = |key: &str| -> Option<u16> {
        s.find(key).and_then(|k| s[k + key.len()..].chars().take_while(|c| c.is_ascii_digit()).collect::<String>().parse().ok())
    };
    if let Some(p) = num("Pay(") { Intr::Ext(p) } else { Intr::Vect(num("vect: ").unwrap_or(999) as u8, num("priority: ").unwrap_or(999) as u8) }
}

fn make_dev(d: &Option<DevSpec>, log: &Log) -> Option<Rec> {
    d.map(|spec| Rec { spec, count: 0, log: Arc::clone(log) })
}

fn mem_ctx(eff: bool) -> MemAccessCtx { MemAccessCtx { privileged: true, strict: false, io_effects: eff, track_access: false } }

/// Run a history on a fresh simulator.
fn drive(fill: u16, ops: &[Op]) -> Vec<Obs> {
    let log: Log = Default::default();
    let mut sim = Simulator::new(SimFlags { machine_init: MachineInitStrategy::Known { value: fill }, ..Default::default() });
    let mut out = Vec::with_capacity(ops.len());
    for o in ops {
        log.lock().unwrap().clear();
        let a = op_addr(o);
        let before = sim.mem[a].get();
        let r = catch(|| match o {
            Op::Add(d, addrs) => Res::Add(match make_dev(d, &log) {
                Some(dev) => sim.device_handler.add_device(dev, addrs).ok(),
                None => sim.device_handler.add_device(NullDevice, addrs).ok(),
            }),
            Op::Remove(id) => { sim.device_handler.remove_device(*id); Res::Unit }
            Op::SetKeyboard(d) => { match make_dev(d, &log) { Some(dev) => sim.device_handler.set_keyboard(dev), None => sim.device_handler.set_keyboard(NullDevice) }; Res::Unit }
            Op::SetDisplay(d) => { match make_dev(d, &log) { Some(dev) => sim.device_handler.set_display(dev), None => sim.device_handler.set_display(NullDevice) }; Res::Unit }
            Op::Mmap(a, r) => Res::Mmap(match sim.mmap_internal(*a, reg(*r)) { Ok(()) => None, Err(MMapInternalErr::NotInIORange) => Some(0), Err(MMapInternalErr::AddrAlreadyMapped) => Some(1) }),
            Op::Munmap(a) => Res::Munmap(sim.munmap_internal(*a)),
            Op::Read(a, e) => match sim.read_mem(*a, mem_ctx(*e)) { Ok(w) => Res::Read(w.get()), Err(_) => Res::Panic },
            Op::Write(a, d) => match sim.write_mem(*a, Word::new_init(*d), mem_ctx(true)) { Ok(()) => Res::Write, Err(_) => Res::Panic },
            Op::Reset => { sim.device_handler.io_reset(); Res::Unit }
            Op::Poll => Res::Poll(parse_intr(&sim.device_handler.poll_interrupt())),
        }).unwrap_or(Res::Panic);
        let events = log.lock().unwrap().clone();
        let word = sim.mem[a].get();
        out.push(Obs { res: r, events, word, before, pc: sim.pc, psr: sim.psr().get(), mcr: sim.mcr().load(std::sync::atomic::Ordering::Relaxed), ssp: sim.verif_saved_sp().get() });
    }
    out
}

fn t_res(o: &Obs) -> Tree {
    match &o.res {
        Res::Add(Some(id)) => ok(vec![i(*id)]),
        Res::Add(None) => err(vec![]),
        Res::Unit => ok(vec![]),
        Res::Mmap(None) => ok(vec![]),
        Res::Mmap(Some(k)) => err(vec![i(*k)]),
        Res::Munmap(x) => ok(vec![b(*x)]),
        Res::Read(v) => ok(vec![i(*v)]),
        Res::Write => ok(vec![]),   // whether the write was taken shows in the mirror word
        Res::Poll(x) => ok(vec![t_intr(*x)]),
        Res::Panic => panic(),
    }
}
fn t_obs(o: &Obs) -> Tree {
    L(vec![t_res(o), list(o.events.iter(), |e| L(vec![i(e.0), i(e.1), i(e.2), i(e.3)])), i(o.word), i(o.pc), i(o.psr), b(o.mcr), i(o.ssp)])
}

// ---------------------------------------------------------------- the independent port table
#[derive(Default)]
struct Table {
    owner: BTreeMap<u16, u32>,             // port -> id of the owning slot (1 keyboard, 2 display, >= 3 added)
    dev: BTreeMap<u32, (DevSpec, u32)>,    // id -> recording device in that slot and its call count
    iregs: BTreeMap<u16, u8>,              // address -> internal register
    next_id: u32,
    last_id: Option<u32>,
}
impl Table {
    fn new() -> Self {
        let mut t = Table { next_id: 3, ..Default::default() };
        for (p, o) in [(KBSR, 1), (KBDR, 1), (DSR, 2), (DDR, 2)] { t.owner.insert(p, o); }
        t.iregs.insert(0xFFFC, 1);
        t.iregs.insert(0xFFFE, 2);
        t
    }
}

fn oracle(ctx: &Ctx, ops: &[Op], obs: &[Obs], replay: &str) {
    let mut t = Table::new();
    let (mut pc, mut psr_known, mut mcr, mut ssp) = (0x3000u16, None::<u16>, false, 0x3000u16);
    let fail = |class: &str, k: usize, what: String| ctx.fail("C32", class, format!("operation {k} {:?}: {what}", ops[k]), replay.to_string());
    for (k, (o, ob)) in ops.iter().zip(obs).enumerate() {
        if ob.res == Res::Panic { fail("panic", k, "panicked or returned an error".into()); return; }
        match o {
            Op::Add(d, addrs) => {
                let want = t.next_id <= 65535 && addrs.iter().all(|a| *a >= IO_START && !t.owner.contains_key(a));
                match (&ob.res, want) {
                    (Res::Add(Some(id)), true) => {
                        if t.last_id.is_some_and(|l| (*id as u32) <= l) || (*id as u32) < 3 {
                            fail("id_reused", k, format!("returned id {id}, not above every earlier id ({:?})", t.last_id));
                        }
                        if *id as u32 != t.next_id { fail("id_reused", k, format!("returned id {id}, expected the next fresh id {}", t.next_id)); }
                        t.last_id = Some(*id as u32);
                        for a in addrs { t.owner.insert(*a, *id as u32); }
                        if let Some(d) = d { t.dev.insert(*id as u32, (*d, 0)); }
                        t.next_id = *id as u32 + 1;
                    }
                    (Res::Add(None), false) => {}
                    (r, w) => { fail("add_iff", k, format!("returned {r:?} but every port free and I/O = {w}")); return; }
                }
            }
            Op::Remove(id) => {
                let id = *id as u32;
                if id < t.next_id { t.dev.remove(&id); }
                if id >= 3 { t.owner.retain(|_, o| *o != id); }
            }
            Op::SetKeyboard(d) => { t.dev.remove(&1); if let Some(d) = d { t.dev.insert(1, (*d, 0)); } }
            Op::SetDisplay(d) => { t.dev.remove(&2); if let Some(d) = d { t.dev.insert(2, (*d, 0)); } }
            Op::Mmap(a, r) => {
                let want = if *a < IO_START { Some(0) } else if t.iregs.contains_key(a) { Some(1) } else { None };
                if ob.res != Res::Mmap(want) { fail("mmap", k, format!("returned {:?}, expected {:?}", ob.res, want)); return; }
                if want.is_none() { t.iregs.insert(*a, *r); }
            }
            Op::Munmap(a) => {
                let want = t.iregs.remove(a).is_some();
                if ob.res != Res::Munmap(want) { fail("mmap", k, format!("returned {:?}, expected {want}", ob.res)); return; }
            }
            Op::Read(a, eff) => {
                let Res::Read(v) = ob.res else { return };
                if *a >= IO_START && t.iregs.contains_key(a) {
                    let want = match t.iregs[a] { 0 => Some(pc), 1 => psr_known, 2 => Some((mcr as u16) << 15), _ => Some(ssp) };
                    if !ob.events.is_empty() { fail("dispatch", k, format!("address mapped to an internal register, but devices were called: {:?}", ob.events)); }
                    if want.is_some_and(|w| w != v) || ob.word != v { fail("dispatch", k, format!("read {v:#x} (mirror {:#x}), internal register holds {want:?}", ob.word)); }
                } else if let Some((d, cnt)) = (*a >= IO_START).then(|| t.owner.get(a)).flatten().and_then(|id| t.dev.get_mut(id)) {
                    let ans = (d.tag as u32 * 256 + *cnt * 16 + (*a as u32 % 16)) as u16;
                    if *eff { *cnt += 1; }
                    if ob.events != vec![(d.tag, 0, *a, *eff as u16)] { fail("dispatch", k, format!("expected exactly one read call on device {} , devices saw {:?}", d.tag, ob.events)); }
                    let want = if d.reads { ans } else { ob.before };
                    if v != want || ob.word != want { fail("dispatch", k, format!("read {v:#x} (mirror {:#x}), expected {want:#x}", ob.word)); }
                } else {
                    if !ob.events.is_empty() { fail("dispatch", k, format!("nothing owns the address, but devices were called: {:?}", ob.events)); }
                    if v != ob.before || ob.word != ob.before { fail("dispatch", k, format!("read {v:#x}, memory held {:#x}", ob.before)); }
                }
            }
            Op::Write(a, data) => {
                if *a >= IO_START && t.iregs.contains_key(a) {
                    if !ob.events.is_empty() { fail("dispatch", k, format!("address mapped to an internal register, but devices were called: {:?}", ob.events)); }
                    match t.iregs[a] {
                        0 => { pc = *data; }
                        1 => { psr_known = Some(ob.psr); }
                        2 => { mcr = *data >= 0x8000; }
                        _ => { ssp = *data; }
                    }
                    if ob.word != *data { fail("dispatch", k, format!("mirror holds {:#x} after a register write of {data:#x}", ob.word)); }
                } else if let Some((d, cnt)) = (*a >= IO_START).then(|| t.owner.get(a)).flatten().and_then(|id| t.dev.get_mut(id)) {
                    *cnt += 1;
                    if ob.events != vec![(d.tag, 1, *a, *data)] { fail("dispatch", k, format!("expected exactly one write call on device {}, devices saw {:?}", d.tag, ob.events)); }
                    let want = if d.writes { *data } else { ob.before };
                    if ob.word != want { fail("dispatch", k, format!("mirror holds {:#x}, expected {want:#x}", ob.word)); }
                } else if *a >= IO_START {
                    if !ob.events.is_empty() { fail("dispatch", k, format!("nothing owns the port, but devices were called: {:?}", ob.events)); }
                    if ob.word != ob.before { fail("unowned_write", k, format!("write to a port that no device took the write on (unowned, or owned by a null device) changed memory from {:#x} to {:#x}", ob.before, ob.word)); }
                } else if ob.word != *data || !ob.events.is_empty() {
                    fail("dispatch", k, format!("plain memory write: mirror {:#x}, device calls {:?}", ob.word, ob.events));
                }
            }
            Op::Reset => {
                let want: Vec<Event> = t.dev.values().map(|(d, _)| (d.tag, 2, 0, 0)).collect();
                for (_, c) in t.dev.values_mut() { *c += 1; }
                if ob.events != want { fail("dispatch", k, format!("io_reset reached {:?}, expected every connected device once: {want:?}", ob.events)); }
            }
            Op::Poll => {
                let want: Vec<Event> = t.dev.values().map(|(d, _)| (d.tag, 3, 0, 0)).collect();
                if ob.events != want { fail("dispatch", k, format!("poll_interrupt reached {:?}, expected every connected device once: {want:?}", ob.events)); }
            }
        }
        // registers only change through a mapped register write
        if ob.pc != pc || ob.mcr != mcr || ob.ssp != ssp || psr_known.is_some_and(|p| p != ob.psr) {
            fail("dispatch", k, format!("internal registers changed: pc {:#x} mcr {} saved_sp {:#x} psr {:#x}, expected pc {pc:#x} mcr {mcr} saved_sp {ssp:#x} psr {psr_known:?}", ob.pc, ob.mcr, ob.ssp, ob.psr));
            return;
        }
        if psr_known.is_none() { psr_known = Some(ob.psr); }
    }
}

fn one_case(ctx: &Ctx, shard: Option<usize>, fill: u16, ops: &[Op]) {
    let obs = drive(fill, ops);
    let input = L(vec![i(fill), list(ops.iter(), t_op)]);
    let output = list(obs.iter(), t_obs);
    match shard { Some(s) => ctx.case_to(s, "devhandler.run", &input, &output), None => ctx.case("devhandler.run", &input, &output) }
    let replay = format!("devhandler.run\t{input}");
    oracle(ctx, ops, &obs, &replay);
}

/// the 23-letter alphabet of the exhaustive part; the k-th operation of a history creates device tag k+1
fn letter(c: usize, k: usize) -> Op {
    let d = Some(DevSpec { tag: k as u16 + 1, reads: true, writes: true, intr: Intr::None });
    let data = 0x1230 + k as u16;
    match c {
        0 => Op::Add(d, vec![P]),
        1 => Op::Add(d, vec![Q]),
        2 => Op::Add(d, vec![P, Q]),
        3 => Op::Add(d, vec![KBSR]),
        4 => Op::Add(d, vec![N]),
        5 => Op::Add(d, vec![]),
        6 => Op::Remove(1),
        7 => Op::Remove(3),
        8 => Op::Remove(4),
        9 => Op::SetKeyboard(d),
        10 => Op::SetDisplay(d),
        11 => Op::Mmap(P, 0),
        12 => Op::Mmap(KBSR, 0),
        13 => Op::Munmap(P),
        14 => Op::Munmap(Q),
        15 => Op::Read(P, true),
        16 => Op::Read(Q, true),
        17 => Op::Read(KBSR, true),
        18 => Op::Read(N, true),
        19 => Op::Write(P, data),
        20 => Op::Write(Q, data | 0x8000),
        21 => Op::Write(DDR, data),
        _ => Op::Write(N, data),
    }
}
const LETTERS: usize = 23;

fn gen_random(r: &mut Rng, len: usize) -> Vec<Op> {
    let ports = [KBSR, KBDR, DSR, DDR, P, Q, 0xFE08, 0xFE12, 0xFFFC, 0xFFFF, 0xFE01, 0xFF00];
    let mut ops = vec![];
    let mut next_id = 3u16;
    for k in 0..len {
        let port = |r: &mut Rng| if r.chance(1, 12) { *r.pick(&[N, 0x3000, 0x4000, 0xFDFE]) /* all outside the OS image */ } else { *r.pick(&ports) };
        let dev = |r: &mut Rng| if r.chance(1, 10) { None } else {
            Some(DevSpec { tag: k as u16 + 1, reads: r.chance(4, 5), writes: r.chance(4, 5),
                intr: match r.below(5) { 0 | 1 => Intr::None, 2 | 3 => Intr::Vect(r.below(256) as u8, r.below(12) as u8), _ => Intr::Ext(r.below(100) as u16) } })
        };
        let op = match r.below(100) {
            0..=14 => { let n = r.below(4) as usize; let a = (0..n).map(|_| port(r)).collect(); next_id = next_id.saturating_add(1); Op::Add(dev(r), a) }
            15..=24 => Op::Remove(if r.chance(1, 6) { r.below(3) as u16 } else { r.below(next_id as u64 + 2) as u16 }),
            25..=28 => Op::SetKeyboard(dev(r)),
            29..=32 => Op::SetDisplay(dev(r)),
            33..=40 => Op::Mmap(port(r), r.below(4) as u8),
            41..=46 => Op::Munmap(port(r)),
            47..=68 => Op::Read(port(r), r.chance(3, 4)),
            69..=92 => Op::Write(port(r), r.u16()),
            93..=95 => Op::Reset,
            _ => Op::Poll,
        };
        ops.push(op);
    }
    ops
}

pub fn run(ctx: &Ctx, _replay: Option<&str>) {
    let fill = 0x0A0A;
    // 1. all histories of length 4 over the alphabet (prefix-closed: covers every length <= 4)
    let n2 = LETTERS * LETTERS;
    par_for(n2, |pre| {
        let (a, b2) = (pre / LETTERS, pre % LETTERS);
        for c in 0..LETTERS {
            for d in 0..LETTERS {
                let ops = [letter(a, 0), letter(b2, 1), letter(c, 2), letter(d, 3)];
                one_case(ctx, Some(pre), fill, &ops);
            }
        }
    });
    ctx.stat("exhaustive_len4", (n2 * n2) as i64);
    // 2. random long histories
    let mut r = Rng::new(ctx.seed).fork(32);
    let n = ctx.n(300, 6000);
    for _ in 0..n {
        let len = r.range(5, if ctx.quick() { 60 } else { 150 }) as usize;
        let ops = gen_random(&mut r, len);
        one_case(ctx, None, r.u16(), &ops);
    }
    ctx.stat("random_histories", n as i64);
    // 3. the documented limit: ids are u16, the 65 534th added device is refused (implementation only)
    let lim = catch(|| {
        let mut sim = Simulator::new(SimFlags { machine_init: MachineInitStrategy::Known { value: 0 }, ..Default::default() });
        let mut last = 2u32;
        for _ in 0..65533u32 {
            match sim.device_handler.add_device(NullDevice, &[]) {
                Ok(id) if id as u32 == last + 1 => last = id as u32,
                other => return Err(format!("add_device #{} returned {:?}", last - 1, other.ok())),
            }
        }
        match sim.device_handler.add_device(NullDevice, &[]) { Err(_) => Ok(()), Ok(id) => Err(format!("after 65533 additions add_device returned id {id}")) }
    });
    match lim {
        Some(Ok(())) => ctx.stat("id_limit_checked", 1),
        Some(Err(e)) => ctx.fail("C32", "id_reused", e, "devhandler.limit\t()".into()),
        None => ctx.fail("C32", "panic", "adding 65534 devices panicked".into(), "devhandler.limit\t()".into()),
    }
}
