//! C07 — every 16-bit word disassembles to a statement whose printed text reassembles, at any
//! origin, to the same word.  Exhaustive over all 65536 words; origins x0000, x3000, xFDFF (quick)
//! plus 13 more (thorough).  Correspondence ops: `disasm.stmt` (word -> statement) and
//! `disasm.text` (word -> printed text); direct oracle: the round trip through the real
//! disassemble_line + Display + parse_ast + assemble, the `.fill` rule and the alias names.
use crate::astwire::t_stmt;
use crate::ctx::{catch, par_for, Ctx};
use crate::tree::*;
use lc3_ensemble::asm::assemble;
use lc3_ensemble::ast::asm::{disassemble_line, try_disassemble_line, AsmInstr, Directive, StmtKind};
use lc3_ensemble::ast::sim::SimInstr;
use lc3_ensemble::parse::parse_ast;

fn reassemble(text: &str, origin: u16) -> Result<Vec<(u16, Option<u16>)>, String> {
    let src = format!(".orig x{origin:04X}\n{text}\n.end");
    let ast = parse_ast(&src).map_err(|e| format!("parse error: {e:?}"))?;
    let obj = assemble(ast).map_err(|e| format!("assemble error: {:?}", e.kind))?;
    Ok(obj.addr_iter().collect())
}

pub fn run(ctx: &Ctx, _replay: Option<&str>) {
    let origins: Vec<u16> = if ctx.quick() { vec![0x0000, 0x3000, 0xFDFF] } else {
        vec![0x0000, 0x0001, 0x00FF, 0x0100, 0x01FF, 0x0200, 0x2FFF, 0x3000, 0x3001, 0x7FFF, 0x8000, 0xC000, 0xFD00, 0xFDFE, 0xFDFF, 0x1234]
    };
    par_for(64, |chunk| {
        for w in (chunk as u32 * 1024)..((chunk as u32 + 1) * 1024) {
            let w = w as u16;
            let stmt = catch(|| disassemble_line(w));
            let Some(stmt) = stmt else {
                ctx.fail("C07", "disassemble_panics", format!("disassemble_line({w:#06x}) panics"), format!("disasm.stmt\t({w})"));
                ctx.case_to(chunk, "disasm.stmt", &L(vec![i(w)]), &panic());
                continue;
            };
            let text = stmt.to_string();
            ctx.case_to(chunk, "disasm.stmt", &L(vec![i(w)]), &ok(vec![t_stmt(&stmt)]));
            ctx.case_to(chunk, "disasm.text", &L(vec![i(w)]), &chars(&text));
            // rule: words below x0200 and non-instructions come back as .fill
            let decodes = SimInstr::decode(w).is_ok();
            let is_fill = matches!(stmt.nucleus, StmtKind::Directive(Directive::Fill(_)));
            if is_fill != (w < 0x0200 || !decodes) {
                ctx.fail("C07", "fill_rule", format!("word {w:#06x}: disassembles to `{text}` (decodes={decodes})"), format!("disasm.stmt\t({w})"));
            }
            if try_disassemble_line(w).is_some() == is_fill {
                ctx.fail("C07", "fill_rule", format!("word {w:#06x}: try_disassemble_line and disassemble_line disagree"), format!("disasm.stmt\t({w})"));
            }
            // aliases are printed by name
            let want_alias = match w { 0xC1C0 => Some("RET"), 0xF020 => Some("GETC"), 0xF021 => Some("PUTC"), 0xF022 => Some("PUTS"),
                                       0xF023 => Some("IN"), 0xF024 => Some("PUTSP"), 0xF025 => Some("HALT"), 0x8000 => Some("RTI"), _ => None };
            if let Some(a) = want_alias {
                let ok_alias = text == a || (w == 0xF021 && text == "OUT");
                if !ok_alias { ctx.fail("C07", "alias_name", format!("word {w:#06x} printed as `{text}`, expected `{a}`"), format!("disasm.text\t({w})")); }
            }
            if matches!(stmt.nucleus, StmtKind::Instr(AsmInstr::TRAP(_))) && (0xF020..=0xF025).contains(&w) {
                ctx.fail("C07", "alias_name", format!("word {w:#06x} printed as `{text}`"), format!("disasm.text\t({w})"));
            }
            for &o in &origins {
                match catch(|| reassemble(&text, o)) {
                    None => ctx.fail("C07", "roundtrip_panics", format!("word {w:#06x} (`{text}`) at origin {o:#06x}: parse/assemble panics"), format!("disasm.text\t({w})")),
                    Some(Err(e)) => ctx.fail("C07", "roundtrip_rejected", format!("word {w:#06x} (`{text}`) at origin {o:#06x}: {e}"), format!("disasm.text\t({w})")),
                    Some(Ok(img)) => if img != vec![(o, Some(w))] {
                        ctx.fail("C07", "roundtrip_differs", format!("word {w:#06x} (`{text}`) at origin {o:#06x} reassembles to {img:x?}"), format!("disasm.text\t({w})"));
                    }
                }
            }
        }
    });
    ctx.stat("words", 65536);
    ctx.stat("origins", origins.len() as i64);
}
