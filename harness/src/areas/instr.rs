//! C06 — SimInstr::decode / encode: every 16-bit word, every representable instruction.
use crate::ctx::{catch, Ctx};
use crate::tree::*;
use lc3_ensemble::ast::sim::SimInstr;
use lc3_ensemble::ast::{IOffset, ImmOrReg, Offset, Reg};
use lc3_ensemble::sim::SimErr;

pub fn reg(r: u8) -> Reg { Reg::try_from(r).unwrap() }
fn t_ior<const N: u32>(o: &ImmOrReg<N>) -> Tree {
    match o { ImmOrReg::Imm(v) => L(vec![i(0), i(v.get())]), ImmOrReg::Reg(r) => L(vec![i(1), i(r.reg_no())]) }
}
pub fn t_instr(x: &SimInstr) -> Tree {
    use SimInstr::*;
    let r = |r: &Reg| i(r.reg_no());
    match x {
        BR(cc, off) => L(vec![i(0), i(*cc), i(off.get())]),
        ADD(a, b, o) => L(vec![i(1), r(a), r(b), t_ior(o)]),
        LD(a, off) => L(vec![i(2), r(a), i(off.get())]),
        ST(a, off) => L(vec![i(3), r(a), i(off.get())]),
        JSR(o) => L(vec![i(4), t_ior(o)]),
        AND(a, b, o) => L(vec![i(5), r(a), r(b), t_ior(o)]),
        LDR(a, b, off) => L(vec![i(6), r(a), r(b), i(off.get())]),
        STR(a, b, off) => L(vec![i(7), r(a), r(b), i(off.get())]),
        RTI => L(vec![i(8)]),
        NOT(a, b) => L(vec![i(9), r(a), r(b)]),
        LDI(a, off) => L(vec![i(10), r(a), i(off.get())]),
        STI(a, off) => L(vec![i(11), r(a), i(off.get())]),
        JMP(a) => L(vec![i(12), r(a)]),
        LEA(a, off) => L(vec![i(14), r(a), i(off.get())]),
        TRAP(v) => L(vec![i(15), i(v.get())]),
    }
}
pub fn t_dec(r: &Option<Result<SimInstr, SimErr>>) -> Tree {
    match r {
        None => panic(),
        Some(Ok(x)) => ok(vec![t_instr(x)]),
        Some(Err(SimErr::IllegalOpcode)) => err(vec![i(0)]),
        Some(Err(SimErr::InvalidInstrFormat)) => err(vec![i(1)]),
        Some(Err(_)) => err(vec![i(99)]),
    }
}

/// the canonical-encoding predicate, written from the ISA tables (independent of decode)
pub fn canonical(w: u16) -> Result<(), SimErr> {
    let op = w >> 12;
    let bad = Err(SimErr::InvalidInstrFormat);
    match op {
        0b1101 => Err(SimErr::IllegalOpcode),
        0b0001 | 0b0101 => if w & 0x20 == 0 && w & 0x18 != 0 { bad } else { Ok(()) },
        0b0100 => if w & 0x800 == 0 && w & 0x063F != 0 { bad } else { Ok(()) },
        0b1000 => if w & 0x0FFF != 0 { bad } else { Ok(()) },
        0b1001 => if w & 0x3F != 0x3F { bad } else { Ok(()) },
        0b1100 => if w & 0x0E3F != 0 { bad } else { Ok(()) },
        0b1111 => if w & 0x0F00 != 0 { bad } else { Ok(()) },
        _ => Ok(()),
    }
}

pub fn all_instrs(mut f: impl FnMut(SimInstr)) {
    use SimInstr::*;
    let o9 = |v: i16| IOffset::<9>::new(v).unwrap();
    for a in 0..8u8 {
        for v in -256..256i16 {
            f(BR(a, o9(v))); f(LD(reg(a), o9(v))); f(ST(reg(a), o9(v))); f(LDI(reg(a), o9(v)));
            f(STI(reg(a), o9(v))); f(LEA(reg(a), o9(v)));
        }
        for b in 0..8u8 {
            for v in -16..16i16 {
                f(ADD(reg(a), reg(b), ImmOrReg::Imm(IOffset::<5>::new(v).unwrap())));
                f(AND(reg(a), reg(b), ImmOrReg::Imm(IOffset::<5>::new(v).unwrap())));
            }
            for c in 0..8u8 {
                f(ADD(reg(a), reg(b), ImmOrReg::Reg(reg(c))));
                f(AND(reg(a), reg(b), ImmOrReg::Reg(reg(c))));
            }
            for v in -32..32i16 {
                f(LDR(reg(a), reg(b), IOffset::<6>::new(v).unwrap()));
                f(STR(reg(a), reg(b), IOffset::<6>::new(v).unwrap()));
            }
            f(NOT(reg(a), reg(b)));
        }
        f(JSR(ImmOrReg::Reg(reg(a))));
        f(JMP(reg(a)));
    }
    for v in -1024..1024i16 { f(JSR(ImmOrReg::Imm(IOffset::<11>::new(v).unwrap()))); }
    for v in 0..256u16 { f(TRAP(Offset::<u16, 8>::new(v).unwrap())); }
    f(RTI);
}

pub fn run(ctx: &Ctx, _replay: Option<&str>) {
    let mut ndec = 0i64;
    for w in 0..=u16::MAX {
        let d = catch(|| SimInstr::decode(w));
        ctx.case("instr.decode", &L(vec![i(w)]), &t_dec(&d));
        // direct oracle on the implementation
        let want = canonical(w);
        match (&d, &want) {
            (None, _) => ctx.fail("C06", "decode_panics", format!("decode({w:#06x}) panics"), format!("instr.decode\t({w})")),
            (Some(Ok(x)), Ok(())) => {
                ndec += 1;
                let e = catch(|| x.encode());
                if e != Some(w) {
                    ctx.fail("C06", "reencode", format!("decode({w:#06x}) = {x:?} re-encodes to {e:x?}"), format!("instr.decode\t({w})"));
                }
            }
            (Some(Ok(x)), Err(e)) => ctx.fail("C06", "decodes_noncanonical",
                format!("decode({w:#06x}) = {x:?} but the word is not a canonical encoding (expected {e:?}); re-encodes to {:#06x}", x.encode()), format!("instr.decode\t({w})")),
            (Some(Err(e)), Ok(())) => ctx.fail("C06", "rejects_canonical", format!("decode({w:#06x}) = Err({e:?}) on a canonical encoding"), format!("instr.decode\t({w})")),
            (Some(Err(e)), Err(e2)) => {
                if std::mem::discriminant(e) != std::mem::discriminant(e2) {
                    ctx.fail("C06", "wrong_error_kind", format!("decode({w:#06x}) = Err({e:?}), expected Err({e2:?})"), format!("instr.decode\t({w})"));
                }
            }
        }
    }
    let mut ninstr = 0i64;
    all_instrs(|x| {
        ninstr += 1;
        let w = catch(|| x.encode());
        let t = t_instr(&x);
        ctx.case("instr.encode", &L(vec![t.clone()]), &match w { Some(w) => ok(vec![i(w)]), None => panic() });
        match w {
            None => ctx.fail("C06", "encode_panics", format!("encode({x:?}) panics"), format!("instr.encode\t({t})")),
            Some(w) => {
                let d = catch(|| SimInstr::decode(w));
                if !matches!(&d, Some(Ok(y)) if *y == x) {
                    ctx.fail("C06", "decode_of_encode", format!("decode(encode({x:?}) = {w:#06x}) = {d:?}"), format!("instr.encode\t({t})"));
                }
            }
        }
    });
    ctx.stat("words", 65536);
    ctx.stat("words_decoding", ndec);
    ctx.stat("instructions", ninstr);
}
