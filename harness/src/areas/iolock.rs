//! C33 — keyboard and display deliver bytes exactly once under lock contention.
//! Echo programs built from GETC / OUT / PUTS / IN (assembled by the crate) run under lock
//! schedules: for every instruction boundary the harness thread holds (or not) the write guard of
//! the keyboard buffer and/or of the display buffer around that one `step_in`
//! (`Machine::step(kb_locked, ds_locked)`), so `try_write` inside the device sees `WouldBlock`.
//! Schedules: (quick) every placement of at most two locked boundaries (keyboard / display / both)
//! over all boundaries of the short runs, plus every choice "locked / free" at each device access
//! with at most K locked accesses (a tree walk); (thorough) the same with larger bounds plus random
//! patterns on long inputs.  Every schedule is finite, hence eventually free.
//! Direct oracle: the program receives every queued byte exactly once in order (R0 at the return of
//! each user-level GETC / IN) and the display buffer is the initial contents followed by exactly
//! the bytes the program output (contract bytes of each user-level OUT / PUTS / IN call), and the
//! run ends at HALT.  A failing schedule that holds the keyboard lock during a KBDR read following
//! a ready KBSR read, or the display lock during a DDR write following a ready DSR read, is class
//! `lock_at_data_access` (DESIGN.md section 9 #14); within that class the delivered bytes must be
//! exactly: a locked KBDR read returns the last byte read before (initially 0) and consumes
//! nothing, a locked DDR write drops that byte — anything else is class `characterisation`.
//! Any other loss or duplication is class `lost_or_duplicated_outside_class`.
use crate::areas::ostrap::*;
use crate::ctx::{par_for, Ctx};
use crate::rng::Rng;
use crate::simwire::*;
use crate::tree::*;
use std::sync::atomic::{AtomicU64, Ordering::Relaxed};

#[derive(Clone, Copy, Debug, PartialEq)]
pub enum Prog { GetcOut, GetcPuts, InOnly, PutsGetcOut }
impl Prog {
    pub const ALL: [Prog; 4] = [Prog::GetcOut, Prog::GetcPuts, Prog::InOnly, Prog::PutsGetcOut];
    fn name(self) -> &'static str { match self { Prog::GetcOut => "getc_out", Prog::GetcPuts => "getc_puts", Prog::InOnly => "in", Prog::PutsGetcOut => "puts_getc_out" } }
    fn source(self, n: usize) -> String {
        match self {
            Prog::GetcOut => format!(".orig x3000\n LD R1, CNT\nLOOP GETC\n OUT\n ADD R1, R1, #-1\n BRp LOOP\n HALT\nCNT .fill {n}\n.end\n"),
            Prog::GetcPuts => format!(".orig x3000\n LEA R2, BUF\n LD R1, CNT\nL1 GETC\n STR R0, R2, #0\n ADD R2, R2, #1\n ADD R1, R1, #-1\n BRp L1\n AND R0, R0, #0\n STR R0, R2, #0\n LEA R0, BUF\n PUTS\n HALT\nCNT .fill {n}\nBUF .blkw {}\n.end\n", n + 1),
            Prog::InOnly => format!(".orig x3000\n LD R1, CNT\nLOOP IN\n ADD R1, R1, #-1\n BRp LOOP\n HALT\nCNT .fill {n}\n.end\n"),
            Prog::PutsGetcOut => format!(".orig x3000\n LEA R0, MSG\n PUTS\n LD R1, CNT\nLOOP GETC\n PUTC\n ADD R1, R1, #-1\n BRp LOOP\n HALT\nCNT .fill {n}\nMSG .stringz \"ok\"\n.end\n"),
        }
    }
}

pub fn setup_for(p: Prog, input: &[u8], ds0: &[u8], real: bool, frames: bool) -> Setup {
    let mut st = Setup::plain(0);
    st.real = real;
    st.debug_frames = frames;
    st.mcr = true;
    st.regs = [(0, 0xFFFF); 8];
    st.regs[6] = (0xFDFF, 0xFFFF);
    for (a, w) in assemble_words(&p.source(input.len())).expect("echo program assembles") { st.overrides.push((a, (w, 0xFFFF))); }
    st.kb = Some((input.to_vec(), false));
    st.ds = Some(ds0.to_vec());
    st
}

/// how the lock state of the next boundary is chosen
pub enum Sched<'a> {
    /// explicit (kb, ds) per step index; free beyond the end
    Fixed(&'a [(bool, bool)]),
    /// decisions at device-access steps only (the accessed device is locked or not); free beyond the end
    AtAccess(&'a [bool]),
    /// random: each boundary locks kb / ds with probability num/den until `budget` locked boundaries
    /// were used; `avoid_data` never locks a data access (stays outside the known class)
    Random { num: u64, den: u64, budget: usize, avoid_data: bool },
}

pub struct Trace {
    pub run: Runner,
    pub received: Vec<u16>,         // R0 at the return of each user-level GETC / IN
    pub expected_out: Vec<u8>,      // bytes the program output (contract of each user-level call)
    pub in_class: bool,             // some lock held at a data access following a ready status read
    pub class_what: String,
    pub pred_received: Vec<u16>,    // characterisation: value of every KBDR read
    pub pred_display: Vec<u8>,      // characterisation: bytes of every DDR write that was not locked
    pub pred_queue: Vec<u8>,
    pub accesses: usize,            // number of device-access steps
    pub halted: bool,
    pub error: Option<String>,
}

pub fn run_sched(st: &Setup, sched: &Sched, r: &mut Rng, limit: usize) -> Trace { run_sched_late(st, sched, r, limit, &[]) }

/// `late`: input bytes the harness thread types while the program runs: (boundary index, byte), in
/// order; they are appended to the keyboard buffer just before that boundary's step (with the lock
/// taken and released again, like a front end would)
pub fn run_sched_late(st: &Setup, sched: &Sched, r: &mut Rng, limit: usize, late: &[(usize, u8)]) -> Trace {
    let run = Runner::new(st);
    let input: Vec<u8> = st.kb.as_ref().map(|x| x.0.clone()).unwrap_or_default();
    let mut t = Trace { run, received: vec![], expected_out: vec![], in_class: false, class_what: String::new(), pred_received: vec![],
                        pred_display: st.ds.clone().unwrap_or_default(), pred_queue: input, accesses: 0, halted: false, error: None };
    let mut stale = t.run.m.sim.mem[KBDR].get();
    let (mut kb_ready, mut ds_ready) = (false, false);
    // whether the last status read happened under the device's lock (then the implementation must have said "not ready";
    // a ready answer under the lock is not the known class: the class is a lock taken AFTER a free, ready status read)
    let (mut kb_stat_locked, mut ds_stat_locked) = (false, false);
    let mut used = 0usize;
    let mut pending_in: Option<u16> = None; // user-level GETC/IN in flight: return address
    let mut pending_in_is_in = false;
    for n in 0..limit {
        for (at, b) in late { if *at == n { if let Some(q) = &t.run.m.kb { q.write().unwrap_or_else(|e| e.into_inner()).push_back(*b); } t.pred_queue.push(*b); } }
        let m = &t.run.m;
        let pc = m.sim.pc;
        let w = m.sim.mem[pc].get();
        let acc = io_access(m);
        if user_mode(m) && w >> 12 == 0xF {
            match Trap::of_vect(w & 0xFF) {
                Some(Trap::Halt) => { t.halted = true; break; }
                Some(Trap::Out) => t.expected_out.push(reg_w(m, 0).0 as u8),
                Some(Trap::Puts) => { let at = |a: u16| m.sim.mem[a].get(); t.expected_out.extend(puts_bytes(&at, reg_w(m, 0).0)); }
                Some(Trap::Putsp) => { let at = |a: u16| m.sim.mem[a].get(); t.expected_out.extend(putsp_bytes(&at, reg_w(m, 0).0)); }
                Some(Trap::Getc) => { pending_in = Some(pc.wrapping_add(1)); pending_in_is_in = false; }
                Some(Trap::In) => { pending_in = Some(pc.wrapping_add(1)); pending_in_is_in = true; t.expected_out.extend(PROMPT); }
                None => {}
            }
        }
        let (kbl, dsl) = match sched {
            Sched::Fixed(v) => v.get(n).copied().unwrap_or((false, false)),
            Sched::AtAccess(v) => match acc {
                Some((a, _)) => { let l = v.get(t.accesses).copied().unwrap_or(false); (l && a < DSR, l && a >= DSR) }
                None => (false, false),
            },
            Sched::Random { num, den, budget, avoid_data } => {
                let mut k = used < *budget && r.chance(*num, *den);
                let mut d = used < *budget && r.chance(*num, *den);
                if *avoid_data { match acc { Some((KBDR, false)) => k = false, Some((DDR, true)) => d = false, _ => {} } }
                if k || d { used += 1; }
                (k, d)
            }
        };
        // bookkeeping of the access about to happen (independent of the device code)
        if let Some((a, store)) = acc {
            t.accesses += 1;
            match (a, store) {
                (KBDR, false) => {
                    if kbl {
                        if kb_ready && !kb_stat_locked { t.in_class = true; t.class_what = format!("keyboard lock held at step {n} during the KBDR read after a ready KBSR"); }
                        t.pred_received.push(stale);
                    } else if !t.pred_queue.is_empty() {
                        stale = t.pred_queue.remove(0) as u16;
                        t.pred_received.push(stale);
                    } else { t.pred_received.push(stale); }
                }
                (DDR, true) => {
                    if dsl { if ds_ready && !ds_stat_locked { t.in_class = true; t.class_what = format!("display lock held at step {n} during the DDR write after a ready DSR"); } }
                    else { t.pred_display.push(reg_w(&t.run.m, ((w >> 9) & 7) as u8).0 as u8); }
                }
                _ => {}
            }
        }
        let out = t.run.step(kbl, dsl);
        if out != Outcome::Ok { t.error = Some(format!("step {n} at x{pc:04X}: {out:?}")); break; }
        // status reads: remember whether they reported ready
        if let Some((a, false)) = acc {
            let dr = ((w >> 9) & 7) as u8;
            if a == KBSR { kb_ready = reg_w(&t.run.m, dr).0 & 0x8000 != 0; kb_stat_locked = kbl; }
            if a == DSR { ds_ready = reg_w(&t.run.m, dr).0 & 0x8000 != 0; ds_stat_locked = dsl; }
        }
        if let Some((KBDR, false)) = acc { kb_ready = false; }
        if let Some((DDR, true)) = acc { ds_ready = false; }
        if let Some(ret) = pending_in { if t.run.m.sim.pc == ret && user_mode(&t.run.m) {
            let v = reg_w(&t.run.m, 0).0;
            t.received.push(v);
            if pending_in_is_in { t.expected_out.push(v as u8); }
            pending_in = None;
        } }
    }
    t
}

struct Tally { runs: AtomicU64, steps: AtomicU64, in_class: AtomicU64, outside: AtomicU64, known_reported: AtomicU64 }

/// Judge one finished trace; records the `sim.run` case and the failures.
fn judge(ctx: &Ctx, shard: usize, tally: &Tally, p: Prog, input: &[u8], ds0: &[u8], t: &Trace, label: &str) { judge_opt(ctx, shard, tally, p, input, ds0, t, label, true) }
/// `record = false` for runs with input typed during the run (the `sim.run` wire format has no such event)
fn judge_opt(ctx: &Ctx, shard: usize, tally: &Tally, p: Prog, input: &[u8], ds0: &[u8], t: &Trace, label: &str, record: bool) {
    tally.runs.fetch_add(1, Relaxed);
    tally.steps.fetch_add(t.run.steps() as u64, Relaxed);
    if record {
        let (inp, out) = t.run.case();
        ctx.case_to(shard, "sim.run", &inp, &out);
    }
    let what = |s: String| format!("{} input {:?} schedule {label}: {s}", p.name(), input);
    let display = ds_buf(&t.run.m);
    let queue = kb_queue(&t.run.m);
    if t.in_class { tally.in_class.fetch_add(1, Relaxed); } else { tally.outside.fetch_add(1, Relaxed); }
    if let Some(e) = &t.error { ctx.fail("C33", "step_error", what(e.clone()), t.run.replay()); return; }
    if !t.halted { ctx.fail("C33", "no_termination", what(format!("no HALT within {} steps although the schedule is free from some point on", t.run.steps())), t.run.replay()); return; }
    // characterisation (holds inside and outside the class)
    let pred_rec_ok = t.pred_received == t.received;
    if !pred_rec_ok || t.pred_display != display || t.pred_queue != queue {
        ctx.fail("C33", "characterisation", what(format!("delivered bytes differ from the characterisation: received {:?} (predicted {:?}), display {:?} (predicted {:?}), queue left {:?} (predicted {:?})",
            t.received, t.pred_received, display, t.pred_display, queue, t.pred_queue)), t.run.replay());
        return;
    }
    // exactly once, in order
    let want_rec: Vec<u16> = input.iter().map(|b| *b as u16).collect();
    let mut want_ds = ds0.to_vec(); want_ds.extend(&t.expected_out);
    let exact = t.received == want_rec && queue.is_empty() && display == want_ds;
    if exact {
        if t.in_class { ctx.fail("C33", "class_too_wide", what(format!("schedule is in the known class ({}) but every byte was delivered exactly once", t.class_what)), t.run.replay()); }
        return;
    }
    let detail = format!("received {:?} of queued {:?} (left in queue {:?}); display {:?}, program output {:?}", t.received, want_rec, queue, &display[ds0.len().min(display.len())..], t.expected_out);
    if t.in_class {
        ctx.stat("known_class_failures", 1);
        if tally.known_reported.fetch_add(1, Relaxed) < 3 { ctx.fail("C33", "lock_at_data_access", what(format!("{}: {detail}", t.class_what)), t.run.replay()); }
    } else {
        ctx.fail("C33", "lost_or_duplicated_outside_class", what(detail), t.run.replay());
    }
}

/// all choices at device accesses with at most `k` locked ones (depth-first; the number of accesses depends on the prefix)
fn walk(ctx: &Ctx, shard: usize, tally: &Tally, p: Prog, st: &Setup, input: &[u8], ds0: &[u8], prefix: &mut Vec<bool>, k: usize, limit: usize) {
    let mut r = Rng::new(0);
    let t = run_sched(st, &Sched::AtAccess(prefix), &mut r, limit);
    judge(ctx, shard, tally, p, input, ds0, &t, &format!("at-access {:?}", prefix.iter().map(|b| *b as u8).collect::<Vec<_>>()));
    if prefix.iter().filter(|b| **b).count() >= k { return; }
    let total = t.accesses;
    let base = prefix.len();
    for i in base..total {
        prefix.resize(i, false);
        prefix.push(true);
        walk(ctx, shard, tally, p, st, input, ds0, prefix, k, limit);
        prefix.truncate(base);
    }
}

pub fn run(ctx: &Ctx, _replay: Option<&str>) {
    let tally = Tally { runs: AtomicU64::new(0), steps: AtomicU64::new(0), in_class: AtomicU64::new(0), outside: AtomicU64::new(0), known_reported: AtomicU64::new(0) };
    let root = Rng::new(ctx.seed ^ 0xC33);
    // ---- the two witnesses of C33_refuted (coq/proofs/LockProofs.v: wit_state, wit_kb, wit_ds), replayed literally
    for (name, idx, lock, want_rec, want_q, want_ds) in [
        ("witness_free", usize::MAX, (false, false), vec![65u16], vec![], vec![65u8]),
        ("witness_kb", 4usize, (true, false), vec![0u16], vec![65u8], vec![0u8]),
        ("witness_ds", 13usize, (false, true), vec![65u16], vec![], vec![]),
    ] {
        let mut st = setup_for(Prog::GetcOut, &[65], &[], false, false);
        st.regs = [(0, 0xFFFF); 8];
        let mut v = vec![];
        if idx != usize::MAX { v = vec![(false, false); idx + 1]; v[idx] = lock; }
        let t = run_sched(&st, &Sched::Fixed(&v), &mut Rng::new(0), 100);
        let (inp, out) = t.run.case();
        ctx.case("sim.run", &inp, &out);
        let ok = t.halted && t.run.steps() == 17 && t.received == want_rec && kb_queue(&t.run.m) == want_q && ds_buf(&t.run.m) == want_ds && (idx == usize::MAX) != t.in_class;
        if !ok {
            ctx.fail("C33", "witness_not_reproduced", format!("{name}: the implementation does not behave as the Coq witness: steps {} received {:?} queue {:?} display {:?} in_class {}",
                t.run.steps(), t.received, kb_queue(&t.run.m), ds_buf(&t.run.m), t.in_class), t.run.replay());
        }
        ctx.stat("witness_replays", 1);
    }
    // ---- exhaustive part: short inputs
    // mode 0: every placement of one (and, with `pairs`, two) locked boundaries over all boundaries, 3 lock kinds each;
    // mode 1: tree walk over the device accesses with at most `k` locked accesses
    struct Job { p: Prog, input: Vec<u8>, ds0: Vec<u8>, real: bool, frames: bool, mode: u8, pairs: bool, k: usize }
    let mut jobs: Vec<Job> = vec![];
    let q = ctx.quick();
    let inputs: Vec<Vec<u8>> = if q { vec![vec![0x41], vec![0x61, 0x62]] } else { vec![vec![0x41], vec![0x61, 0x62], vec![0x7A, 0x7A], vec![1, 0xFF, 0x80]] };
    for (j, input) in inputs.iter().enumerate() {
        for p in Prog::ALL {
            let n = input.len();
            let ds0 = if j % 2 == 0 { vec![] } else { vec![0x2A] };
            let pairs = match p { Prog::GetcOut => n == 1 || (!q && n == 2), Prog::GetcPuts => !q && n == 1, _ => false };
            if p != Prog::InOnly || (!q && n == 1) { jobs.push(Job { p, input: input.clone(), ds0: ds0.clone(), real: j % 2 == 1, frames: false, mode: 0, pairs, k: 0 }); }
            let k = match p {
                Prog::GetcOut | Prog::GetcPuts => if n <= 2 { if q { 3 } else { 4 } } else { 3 },
                Prog::PutsGetcOut => if q { 2 } else { 3 },
                Prog::InOnly => if q || n > 1 { 1 } else { 2 },
            };
            jobs.push(Job { p, input: input.clone(), ds0, real: j % 2 == 0, frames: j % 2 == 1, mode: 1, pairs: false, k });
        }
    }
    // split the placement jobs by first locked boundary so that they spread over the cores
    struct Unit { job: usize, first: Option<usize> }
    let mut units: Vec<Unit> = vec![];
    let mut free_len: Vec<usize> = vec![];
    for (ji, j) in jobs.iter().enumerate() {
        let st = setup_for(j.p, &j.input, &j.ds0, j.real, j.frames);
        let t = run_sched(&st, &Sched::Fixed(&[]), &mut Rng::new(0), 4000);
        free_len.push(t.run.steps());
        if j.mode == 0 { for a in 0..t.run.steps() { units.push(Unit { job: ji, first: Some(a) }); } units.push(Unit { job: ji, first: None }); }
        else { units.push(Unit { job: ji, first: None }); }
    }
    par_for(units.len(), |u| {
        let un = &units[u];
        let j = &jobs[un.job];
        let st = setup_for(j.p, &j.input, &j.ds0, j.real, j.frames);
        let limit = 4000;
        if j.mode == 1 {
            walk(ctx, u, &tally, j.p, &st, &j.input, &j.ds0, &mut vec![], j.k, limit);
            ctx.stat(&format!("walk.{}.n{}.k{}", j.p.name(), j.input.len(), j.k), 1);
            return;
        }
        match un.first {
            None => { let t = run_sched(&st, &Sched::Fixed(&[]), &mut Rng::new(0), limit); judge(ctx, u, &tally, j.p, &j.input, &j.ds0, &t, "all free"); }
            Some(a) => {
                // boundary a locked (3 kinds), alone and with every later boundary b (3 kinds); a lock
                // lengthens the run by at most one polling iteration, hence the margin
                let len = free_len[un.job] + 6;
                let kinds = [(true, false), (false, true), (true, true)];
                for ka in kinds {
                    let mut v = vec![(false, false); a + 1];
                    v[a] = ka;
                    let t = run_sched(&st, &Sched::Fixed(&v), &mut Rng::new(0), limit);
                    judge(ctx, u, &tally, j.p, &j.input, &j.ds0, &t, &format!("boundary {a}:{ka:?}"));
                    if !j.pairs { continue; }
                    for b in a + 1..len {
                        for kb in kinds {
                            let mut v2 = v.clone(); v2.resize(b + 1, (false, false)); v2[b] = kb;
                            let t = run_sched(&st, &Sched::Fixed(&v2), &mut Rng::new(0), limit);
                            judge(ctx, u, &tally, j.p, &j.input, &j.ds0, &t, &format!("boundaries {a}:{ka:?} {b}:{kb:?}"));
                        }
                    }
                }
            }
        }
    });
    // ---- input typed while the program runs: the first byte is queued, the second arrives at boundary `at`
    // (while the second GETC / IN is already polling, or earlier); every single locked boundary, 3 kinds
    let late_jobs: Vec<(Prog, usize)> = Prog::ALL.iter().flat_map(|p| [8usize, 30, 45, 70].into_iter().map(move |at| (*p, at))).filter(|(p, _)| *p != Prog::InOnly || !q).collect();
    par_for(late_jobs.len(), |u| {
        let (p, at) = late_jobs[u];
        let input = [0x61u8, 0x62];
        let mut st = setup_for(p, &input, &[], u % 2 == 0, false);
        st.kb = Some((vec![input[0]], false));
        let late = [(at, input[1])];
        let free = run_sched_late(&st, &Sched::Fixed(&[]), &mut Rng::new(0), 4000, &late);
        judge_opt(ctx, u, &tally, p, &input, &[], &free, &format!("second byte typed at boundary {at}, all free"), false);
        for a in 0..free.run.steps() + 6 {
            for ka in [(true, false), (false, true), (true, true)] {
                let mut v = vec![(false, false); a + 1];
                v[a] = ka;
                let t = run_sched_late(&st, &Sched::Fixed(&v), &mut Rng::new(0), 4000, &late);
                judge_opt(ctx, u, &tally, p, &input, &[], &t, &format!("second byte typed at boundary {at}, boundary {a}:{ka:?}"), false);
            }
        }
        ctx.stat("late_input_jobs", 1);
    });
    // ---- the other ways a front end can be "in the way": a SHARED (read) guard held by another thread — `try_write`
    // fails exactly as under an exclusive guard, so every expectation is the same — and a POISONED lock (a thread
    // panicked while holding the write guard) — the devices recover the guard, so the run must be the free run.
    // Every single boundary (3 kinds) of the short echo programs under shared guards; free, single-boundary and
    // random schedules on poisoned buffers.
    let alt_jobs: Vec<(Prog, u8)> = Prog::ALL.iter().filter(|p| **p != Prog::InOnly || !q).flat_map(|p| [1u8, 2].into_iter().map(move |m| (*p, m))).collect();
    par_for(alt_jobs.len(), |u| {
        let (p, mode) = alt_jobs[u];
        let input = [0x61u8, 0x62];
        let ds0 = [0x2Au8];
        let st = setup_for(p, &input, &ds0, u % 2 == 0, false);
        if mode == 1 { crate::simwire::LOCK_KIND.with(|c| c.set(1)); } else { crate::simwire::POISON.with(|c| c.set(true)); }
        let name = if mode == 1 { "shared guards" } else { "poisoned locks" };
        let free = run_sched(&st, &Sched::Fixed(&[]), &mut Rng::new(0), 4000);
        judge_opt(ctx, u, &tally, p, &input, &ds0, &free, &format!("{name}, all free"), false);
        let step = if mode == 1 || !q { 1 } else { 3 };
        for a in (0..free.run.steps() + 6).step_by(step) {
            for ka in [(true, false), (false, true), (true, true)] {
                let mut v = vec![(false, false); a + 1];
                v[a] = ka;
                let t = run_sched(&st, &Sched::Fixed(&v), &mut Rng::new(0), 4000);
                judge_opt(ctx, u, &tally, p, &input, &ds0, &t, &format!("{name}, boundary {a}:{ka:?}"), false);
            }
        }
        // a guard held over a whole poll iteration and the data access that follows a ready status (3 and 4 boundaries)
        for a in 0..free.run.steps() {
            for len in [3usize, 4] {
                for ka in [(true, false), (false, true)] {
                    let mut v = vec![(false, false); a + len];
                    for x in a..a + len { v[x] = ka; }
                    let t = run_sched(&st, &Sched::Fixed(&v), &mut Rng::new(0), 4000);
                    judge_opt(ctx, u, &tally, p, &input, &ds0, &t, &format!("{name}, boundaries {a}..{}:{ka:?}", a + len), false);
                }
            }
        }
        let mut r = root.fork(0x5A000 + u as u64);
        for _ in 0..ctx.n(6, 60) {
            let t = run_sched(&st, &Sched::Random { num: 1, den: 4, budget: 40, avoid_data: true }, &mut r, 8000);
            judge_opt(ctx, u, &tally, p, &input, &ds0, &t, &format!("{name}, random p=1/4 avoid_data=true"), false);
        }
        crate::simwire::LOCK_KIND.with(|c| c.set(0)); crate::simwire::POISON.with(|c| c.set(false));
        ctx.stat(if mode == 1 { "shared_guard_jobs" } else { "poisoned_lock_jobs" }, 1);
    });
    // random locks with random typing times on longer inputs
    par_for(ctx.n(120, 3000) as usize, |k| {
        let mut r = root.fork(0x4C000 + k as u64);
        let p = Prog::ALL[k % 4];
        let n = 2 + r.below(if p == Prog::InOnly { 2 } else { 5 }) as usize;
        let input: Vec<u8> = (0..n).map(|_| 1 + r.below(255) as u8).collect();
        let first = r.below(n as u64) as usize;
        let mut st = setup_for(p, &input, &[], r.chance(1, 2), false);
        st.kb = Some((input[..first].to_vec(), false));
        let mut at = 0usize;
        let late: Vec<(usize, u8)> = input[first..].iter().map(|b| { at += r.below(90) as usize; (at, *b) }).collect();
        let (num, den) = [(1u64, 16u64), (1, 6), (1, 3), (2, 3)][r.below(4) as usize];
        let budget = 4 + r.below(60) as usize;
        let t = run_sched_late(&st, &Sched::Random { num, den, budget, avoid_data: true }, &mut r, 12000, &late);
        judge_opt(ctx, k, &tally, p, &input, &[], &t, &format!("typed during the run {late:?}, random p={num}/{den} budget={budget} avoid_data=true"), false);
    });
    // ---- random part: longer inputs
    let nrand = ctx.n(160, 4000) as usize;
    par_for(nrand, |k| {
        let mut r = root.fork(k as u64 + 1);
        let p = Prog::ALL[k % 4];
        let n = if ctx.quick() { 1 + r.below(5) } else { 1 + r.below(if p == Prog::InOnly { 4 } else { 14 }) } as usize;
        let input: Vec<u8> = (0..n).map(|_| if p == Prog::GetcPuts { 1 + r.below(255) as u8 } else { match r.below(8) { 0 => 0, 1 => 0xFF, _ => r.next() as u8 } }).collect();
        let ds0: Vec<u8> = (0..r.below(3)).map(|_| r.next() as u8).collect();
        let st = setup_for(p, &input, &ds0, r.chance(1, 2), r.chance(1, 2));
        let (num, den) = [(1u64, 16u64), (1, 6), (1, 3), (2, 3)][r.below(4) as usize];
        let avoid = r.chance(3, 5);
        let budget = 4 + r.below(60) as usize;
        let t = run_sched(&st, &Sched::Random { num, den, budget, avoid_data: avoid }, &mut r, 8000);
        judge(ctx, k, &tally, p, &input, &ds0, &t, &format!("random p={num}/{den} budget={budget} avoid_data={avoid}"));
        if k < 3 { ctx.sample(format!("{} input {:?} random p={num}/{den}: {} steps, in_class={}, received {:?}, display {:?}", p.name(), input, t.run.steps(), t.in_class, t.received, ds_buf(&t.run.m))); }
    });
    ctx.stat("runs", tally.runs.load(Relaxed) as i64);
    ctx.stat("steps", tally.steps.load(Relaxed) as i64);
    ctx.stat("schedules_in_known_class", tally.in_class.load(Relaxed) as i64);
    ctx.stat("schedules_outside_known_class", tally.outside.load(Relaxed) as i64);
}
