//! C10 (interrupts are priority-gated and transparent) and C12 (real and virtual traps agree
//! except at HALT and exceptions): direct oracles on the implementation + correspondence cases.
//!
//! * entry snapshot (C10): before every step an independent reference predicts, from the
//!   pending requests of all devices (keyboard, timers, scripted `InterruptFromFn` devices) and
//!   the PSR, whether an interrupt is taken (maximum key, last among equals, strictly above the
//!   PSR priority) and what the machine looks like afterwards; checked on generated programs and
//!   on random machine states (`sim::gen_setup`).
//! * transparency (C10): generated user programs + well-behaved handlers; scripted interrupts
//!   placed exhaustively over every boundary (k <= 2 quick, k <= 3 thorough) and random
//!   schedules with competing priorities, nesting, keyboard and timer interrupts; the final
//!   registers, PSR, stack pointers, user memory and display output must equal the
//!   uninterrupted run, and every handler must have run exactly as often as predicted.
//! * paired runs (C12): generated user programs (I/O traps, subroutines, stack; ending in HALT or
//!   in a fault) run in lock-step under virtual and real traps.
//! * the generated runs are also `sim.run` correspondence cases for the Coq model.
use crate::ctx::{par_for, Ctx};
use crate::rng::Rng;
use crate::simwire::*;
use crate::tree::*;
use std::sync::atomic::{AtomicU64, Ordering::Relaxed};
use std::sync::Mutex;

// ------------------------------------------------------------------ a tiny assembler
#[derive(Clone, Debug)]
enum It { W(u16), Rel(u16, u32, usize), Addr(usize), Here(usize) }
#[derive(Clone, Default)]
struct Asm { its: Vec<It>, nlab: usize }
impl Asm {
    fn lab(&mut self) -> usize { self.nlab += 1; self.nlab - 1 }
    fn here(&mut self, l: usize) { self.its.push(It::Here(l)); }
    fn w(&mut self, x: u16) { self.its.push(It::W(x)); }
    fn rel(&mut self, base: u16, bits: u32, l: usize) { self.its.push(It::Rel(base, bits, l)); }
    fn addr(&mut self, l: usize) { self.its.push(It::Addr(l)); }
    /// words and label addresses; None when a PC-relative offset does not fit
    fn link(&self, origin: u16) -> Option<(Vec<u16>, Vec<u16>)> {
        let mut addrs = vec![0u16; self.nlab];
        let mut a = origin;
        for it in &self.its { match it { It::Here(l) => addrs[*l] = a, _ => a = a.wrapping_add(1) } }
        let mut out = vec![];
        let mut a = origin;
        for it in &self.its {
            match it {
                It::Here(_) => continue,
                It::W(x) => out.push(*x),
                It::Addr(l) => out.push(addrs[*l]),
                It::Rel(base, bits, l) => {
                    let off = addrs[*l].wrapping_sub(a.wrapping_add(1)) as i16 as i32;
                    let half = 1i32 << (bits - 1);
                    if off < -half || off >= half { return None; }
                    out.push(base | ((off as u16) & ((1u16 << bits) - 1)));
                }
            }
            a = a.wrapping_add(1);
        }
        Some((out, addrs))
    }
}
fn add_i(dr: u16, sr: u16, imm: i16) -> u16 { 0x1020 | dr << 9 | sr << 6 | (imm as u16 & 0x1F) }
fn add_r(dr: u16, a: u16, b: u16) -> u16 { 0x1000 | dr << 9 | a << 6 | b }
fn and_i(dr: u16, sr: u16, imm: i16) -> u16 { 0x5020 | dr << 9 | sr << 6 | (imm as u16 & 0x1F) }
fn and_r(dr: u16, a: u16, b: u16) -> u16 { 0x5000 | dr << 9 | a << 6 | b }
fn not_(dr: u16, sr: u16) -> u16 { 0x903F | dr << 9 | sr << 6 }
fn ldr(dr: u16, br: u16, off: i16) -> u16 { 0x6000 | dr << 9 | br << 6 | (off as u16 & 0x3F) }
fn str_(sr: u16, br: u16, off: i16) -> u16 { 0x7000 | sr << 9 | br << 6 | (off as u16 & 0x3F) }
fn jsrr(br: u16) -> u16 { 0x4000 | br << 6 }
fn jmp(br: u16) -> u16 { 0xC000 | br << 6 }
const RET: u16 = 0xC1C0;
const RTI: u16 = 0x8000;
const HALT: u16 = 0xF025;
fn br(cc: u16) -> u16 { cc << 9 }
fn ld(dr: u16) -> u16 { 0x2000 | dr << 9 }
fn st(sr: u16) -> u16 { 0x3000 | sr << 9 }
fn ldi(dr: u16) -> u16 { 0xA000 | dr << 9 }
fn sti(sr: u16) -> u16 { 0xB000 | sr << 9 }
fn lea(dr: u16) -> u16 { 0xE000 | dr << 9 }
const JSR: u16 = 0x4800;
fn push(a: &mut Asm, r: u16) { a.w(add_i(6, 6, -1)); a.w(str_(r, 6, 0)); }
fn pop(a: &mut Asm, r: u16) { a.w(ldr(r, 6, 0)); a.w(add_i(6, 6, 1)); }

// ------------------------------------------------------------------ user programs
#[derive(Clone, Copy, PartialEq, Debug)]
pub enum Fault { None, AcvLoad, AcvStore, AcvLdr, AcvJump, PrivRti, IllOp, BadFmt }
#[derive(Clone, Debug)]
struct GenCfg { blocks: usize, input: bool, putsp: bool, fault: Fault, long_loops: bool, fault_in_sub: bool }
struct Labels { data: Vec<usize>, ptrs: Vec<usize>, strs: Vec<usize>, pstr: usize, chs: Vec<usize>, subs: Vec<usize>, bad: usize }

fn arith(a: &mut Asm, r: &mut Rng) {
    let (d, s, t) = (r.below(5) as u16, r.below(5) as u16, r.below(5) as u16);
    let imm = r.range(-16, 15) as i16;
    a.w(match r.below(6) { 0 | 1 => add_i(d, s, imm), 2 => add_r(d, s, t), 3 => and_i(d, s, imm), 4 => and_r(d, s, t), _ => not_(d, s) });
}
fn memop(a: &mut Asm, r: &mut Rng, lb: &Labels) {
    let rg = r.below(5) as u16;
    let k = r.below(lb.data.len() as u64) as usize;
    match r.below(7) {
        0 => a.rel(ld(rg), 9, lb.data[k]),
        1 => a.rel(st(rg), 9, lb.data[k]),
        2 => a.rel(ldi(rg), 9, lb.ptrs[k % lb.ptrs.len()]),
        3 => a.rel(sti(rg), 9, lb.ptrs[k % lb.ptrs.len()]),
        4 => { let b = (rg + 1) % 5; a.rel(lea(b), 9, lb.data[0]); a.w(ldr(rg, b, k as i16)); }
        5 => { let b = (rg + 1) % 5; a.rel(lea(b), 9, lb.data[0]); a.w(str_(rg, b, k as i16)); }
        _ => { let b = (rg + 1) % 5; a.rel(lea(b), 9, lb.data[lb.data.len() - 1]); a.w(ldr(rg, b, -(k as i16))); }
    }
}
/// one block; `sub`: index of the enclosing subroutine (callers may only call higher ones)
fn block(a: &mut Asm, r: &mut Rng, lb: &Labels, cfg: &GenCfg, in_loop: bool, sub: Option<usize>) {
    match r.below(14) {
        0..=2 => { for _ in 0..1 + r.below(3) { arith(a, r); } }
        3 | 4 => memop(a, r, lb),
        5 if !in_loop && sub.is_none() => {
            let n = if cfg.long_loops { 2 + r.below(12) } else { 2 + r.below(2) } as i16;
            a.w(and_i(5, 5, 0)); a.w(add_i(5, 5, n));
            let top = a.lab(); a.here(top);
            for _ in 0..1 + r.below(2) { block(a, r, lb, cfg, true, sub); }
            a.w(add_i(5, 5, -1)); a.rel(br(1), 9, top);
        }
        6 | 7 => {
            let lo = sub.map(|k| k + 1).unwrap_or(0);
            if lo < lb.subs.len() {
                let k = lo + r.below((lb.subs.len() - lo) as u64) as usize;
                if r.chance(1, 3) { a.rel(lea(4), 9, lb.subs[k]); a.w(jsrr(4)); } else { a.rel(JSR, 11, lb.subs[k]); }
            } else { arith(a, r); }
        }
        8 => { a.rel(ld(0), 9, lb.chs[r.below(lb.chs.len() as u64) as usize]); a.w(0xF021); }
        9 => { a.rel(lea(0), 9, lb.strs[r.below(lb.strs.len() as u64) as usize]); a.w(0xF022); }
        10 => { let x = r.below(5) as u16; push(a, x); arith(a, r); pop(a, r.below(5) as u16); }
        11 => {
            let x = r.below(5) as u16;
            a.w(add_i(x, x, 0));
            let skip = a.lab();
            a.rel(br(1 + r.below(7) as u16), 9, skip);
            arith(a, r);
            a.here(skip);
        }
        12 if cfg.input => { if r.chance(1, 2) { a.w(0xF020); if r.chance(1, 2) { a.w(0xF021); } } else { a.w(0xF023); } }
        13 if cfg.putsp => { a.rel(lea(0), 9, lb.pstr); a.w(0xF024); }
        _ => arith(a, r),
    }
}
fn fault_code(a: &mut Asm, r: &mut Rng, lb: &Labels, f: Fault) {
    match f {
        Fault::None => {}
        Fault::AcvLoad => a.rel(ldi(r.below(5) as u16), 9, lb.bad),
        Fault::AcvStore => a.rel(sti(r.below(5) as u16), 9, lb.bad),
        Fault::AcvLdr => { a.rel(ld(3), 9, lb.bad); if r.chance(1, 2) { a.w(ldr(0, 3, 0)); } else { a.w(str_(1, 3, 0)); } }
        Fault::AcvJump => { a.rel(ld(3), 9, lb.bad); a.w(jmp(3)); }
        Fault::PrivRti => a.w(RTI),
        Fault::IllOp => a.w(0xD000 | r.below(0x1000) as u16),
        Fault::BadFmt => a.w(*r.pick(&[0x8001u16, 0x9000, 0x4001, 0x1008, 0xF100, 0xC800, 0x5010, 0xC001])),
    }
}
struct UProg { words: Vec<u16> }
const UORIGIN: u16 = 0x3000;
fn gen_user(r: &mut Rng, cfg: &GenCfg) -> UProg {
    loop {
        let mut a = Asm::default();
        let lb = Labels {
            data: (0..6).map(|_| a.lab()).collect(), ptrs: (0..3).map(|_| a.lab()).collect(),
            strs: (0..2).map(|_| a.lab()).collect(), pstr: a.lab(), chs: (0..2).map(|_| a.lab()).collect(),
            subs: (0..3).map(|_| a.lab()).collect(), bad: a.lab(),
        };
        for _ in 0..cfg.blocks { block(&mut a, r, &lb, cfg, false, None); }
        let fsub = a.lab();
        if cfg.fault != Fault::None && cfg.fault_in_sub { a.rel(JSR, 11, fsub); } else { fault_code(&mut a, r, &lb, cfg.fault); }
        a.w(HALT);
        a.w(HALT);
        a.here(fsub);
        push(&mut a, 7); arith(&mut a, r); fault_code(&mut a, r, &lb, cfg.fault); pop(&mut a, 7); a.w(RET);
        for k in 0..lb.subs.len() {
            a.here(lb.subs[k]);
            push(&mut a, 7);
            let save0 = r.chance(1, 2);
            if save0 { push(&mut a, 0); }
            for _ in 0..1 + r.below(3) { block(&mut a, r, &lb, cfg, true, Some(k)); }
            if save0 { pop(&mut a, 0); }
            pop(&mut a, 7);
            a.w(RET);
        }
        for (k, l) in lb.data.iter().enumerate() { a.here(*l); a.w(if k % 2 == 0 { r.u16() } else { r.below(40) as u16 }); }
        for (k, l) in lb.ptrs.iter().enumerate() { a.here(*l); a.addr(lb.data[(k * 2 + 1) % lb.data.len()]); }
        for l in &lb.strs { a.here(*l); for _ in 0..r.below(5) { a.w(0x20 + r.below(0x5F) as u16 + if r.chance(1, 6) { 0x100 * (1 + r.below(200) as u16) } else { 0 }); } a.w(0); }
        a.here(lb.pstr); for _ in 0..r.below(3) { a.w((0x21 + r.below(0x5E) as u16) | (0x21 + r.below(0x5E) as u16) << 8); }
        a.w(if r.chance(1, 2) { 0x41 + r.below(26) as u16 } else { 0 }); a.w(0);
        for l in &lb.chs { a.here(*l); a.w(if r.chance(1, 5) { r.u16() } else { 0x21 + r.below(0x5E) as u16 }); }
        a.here(lb.bad);
        a.w(*r.pick(&[0x0000u16, 0x0200, 0x2FFF, 0xFE00, 0xFE06, 0xFFFE, 0xFFFF, 0x1234]));
        if let Some((words, _)) = a.link(UORIGIN) { return UProg { words }; }
    }
}

// ------------------------------------------------------------------ handlers
/// 0 counter, 1 clobbering, 2 slow loop, 3 keyboard reader, 4 calls a helper; 9 = BAD (negative control: clobbers R0)
#[derive(Clone, Debug)]
struct HInfo { vect: u8, kind: u8, cnt: u16, buf: u16 }
fn gen_handler(kind: u8, origin: u16) -> (Vec<u16>, u16, u16) {
    let mut a = Asm::default();
    let (cnt, bufp, buf, kbdr, helper) = (a.lab(), a.lab(), a.lab(), a.lab(), a.lab());
    let bump = |a: &mut Asm| { a.rel(ld(0), 9, cnt); a.w(add_i(0, 0, 1)); a.rel(st(0), 9, cnt); };
    match kind {
        0 => { push(&mut a, 0); bump(&mut a); pop(&mut a, 0); a.w(RTI); }
        1 => {
            push(&mut a, 0); push(&mut a, 1); push(&mut a, 2); bump(&mut a);
            a.w(and_i(1, 1, 0)); a.w(not_(2, 1)); a.w(add_r(1, 2, 0));
            pop(&mut a, 2); pop(&mut a, 1); pop(&mut a, 0); a.w(RTI);
        }
        2 => {
            push(&mut a, 0); push(&mut a, 1); bump(&mut a);
            a.w(and_i(1, 1, 0)); a.w(add_i(1, 1, 3));
            let top = a.lab(); a.here(top); a.w(add_i(1, 1, -1)); a.rel(br(1), 9, top);
            pop(&mut a, 1); pop(&mut a, 0); a.w(RTI);
        }
        3 => {
            // buf[cnt & 15] := KBDR; cnt += 1
            push(&mut a, 0); push(&mut a, 1); push(&mut a, 2);
            a.rel(ldi(0), 9, kbdr); a.rel(ld(1), 9, cnt); a.w(and_i(1, 1, 15)); a.rel(ld(2), 9, bufp); a.w(add_r(1, 1, 2)); a.w(str_(0, 1, 0));
            bump(&mut a);
            pop(&mut a, 2); pop(&mut a, 1); pop(&mut a, 0); a.w(RTI);
        }
        4 => { push(&mut a, 0); push(&mut a, 7); a.rel(JSR, 11, helper); pop(&mut a, 7); pop(&mut a, 0); a.w(RTI); }
        _ => { bump(&mut a); a.w(RTI); }
    }
    a.here(helper); bump(&mut a); a.w(RET);
    a.here(cnt); a.w(0);
    a.here(bufp); a.addr(buf);
    a.here(kbdr); a.w(0xFE02);
    a.here(buf); for _ in 0..16 { a.w(0); }
    let (w, l) = a.link(origin).expect("handler links");
    (w, l[cnt], l[buf])
}

// ------------------------------------------------------------------ plans
#[derive(Clone, Debug)]
struct Opts { real: bool, strict: bool, frames: bool, privileged: bool, base_prio: u16, kb: Option<(Vec<u8>, bool)> }
#[derive(Clone)]
struct Plan { st: Setup, handlers: Vec<HInfo> }
const HORIGIN: u16 = 0x1000;
fn make_plan(r: &mut Rng, up: &UProg, vects: &[(u8, u8)], o: &Opts) -> Plan {
    let mut st = Setup::plain(if r.chance(1, 2) { 0 } else { r.u16() });
    st.real = o.real; st.strict = o.strict; st.debug_frames = o.frames;
    st.pc = UORIGIN;
    st.psr = (if o.privileged { 0 } else { 0x8000 }) | o.base_prio << 8 | [1u16, 2, 4][r.below(3) as usize];
    for k in 0..8 { st.regs[k] = (if r.chance(1, 3) { r.below(64) as u16 } else { r.u16() }, 0xFFFF); }
    if o.privileged { st.regs[6] = (0x2E00, 0xFFFF); st.saved_sp = (0xFD00, 0xFFFF); }
    else { st.regs[6] = (0xFD00, 0xFFFF); st.saved_sp = (if r.chance(1, 4) { 0x2F80 } else { 0x3000 }, 0xFFFF); }
    st.mcr = true;
    st.ds = Some(vec![]);
    st.kb = o.kb.clone();
    for (k, w) in up.words.iter().enumerate() { st.overrides.push((UORIGIN + k as u16, (*w, 0xFFFF))); }
    let mut handlers = vec![];
    for (k, (v, kind)) in vects.iter().enumerate() {
        let origin = HORIGIN + 0x60 * k as u16;
        let (w, cnt, buf) = gen_handler(*kind, origin);
        for (j, x) in w.iter().enumerate() { st.overrides.push((origin + j as u16, (*x, 0xFFFF))); }
        st.overrides.push((0x100 + *v as u16, (origin, 0xFFFF)));
        handlers.push(HInfo { vect: *v, kind: *kind, cnt, buf });
    }
    Plan { st, handlers }
}

// ------------------------------------------------------------------ the entry reference
#[derive(Clone, Copy, Debug, PartialEq)]
enum PIrq { V(u8, u8), E }
fn key(p: &PIrq) -> u8 { match p { PIrq::V(_, p) => *p, PIrq::E => 8 } }
/// what every device will answer at the next poll, in device order.  A timer whose count is 0 draws a
/// fresh count at the poll and fires at once when that count is 0 again: `Draw(k, irq)` is resolved
/// after the step by looking at timer k only.
#[derive(Clone, Copy, Debug, PartialEq)]
enum Pend { Now(PIrq), Draw(usize, PIrq) }
fn pending(m: &mut Machine, kb_locked: bool) -> Vec<Pend> {
    let mut v = vec![];
    if let Some(b) = &m.kb {
        let ready = !kb_locked && !b.read().unwrap_or_else(|e| e.into_inner()).is_empty();
        use lc3_ensemble::sim::device::ExternalDevice;
        let ie = m.sim.device_handler.io_read(0xFE00, false).map(|x| x & 0x4000 != 0).unwrap_or(false);
        if ready && ie { v.push(Pend::Now(PIrq::V(0x80, 4))); }
    }
    for (k, x) in m.extras.iter().enumerate() {
        match x {
            ExtraH::Timer(t) => {
                let t = t.lock().unwrap();
                if t.enabled && t.get_remaining() == 1 { v.push(Pend::Now(PIrq::V(t.vect, t.priority.min(7)))); }
                if t.enabled && t.get_remaining() == 0 { v.push(Pend::Draw(k, PIrq::V(t.vect, t.priority.min(7)))); }
            }
            ExtraH::Script(q) => match q.lock().unwrap().front() {
                Some(Some(Irq::Vec(vc, p))) => v.push(Pend::Now(PIrq::V(*vc, (*p).min(7)))),
                Some(Some(Irq::Ext)) => v.push(Pend::Now(PIrq::E)),
                _ => {}
            },
        }
    }
    v
}
fn resolve(m: &Machine, p: &[Pend]) -> Vec<PIrq> {
    p.iter().filter_map(|x| match x {
        Pend::Now(i) => Some(*i),
        Pend::Draw(k, i) => match &m.extras[*k] { ExtraH::Timer(t) if t.lock().unwrap().get_remaining() == 0 => Some(*i), _ => None },
    }).collect()
}
/// the request that wins arbitration: maximal key, the last one among equals
fn winner(p: &[PIrq]) -> Option<PIrq> {
    let mx = p.iter().map(key).max()?;
    p.iter().rev().find(|x| key(x) == mx).copied()
}
struct Pre { pc: u16, psr: u16, regs: [W; 8], ssp: W, instrs: u64, flen: usize, cands: Vec<Pend>, win: Option<PIrq>, strict: bool, fetch_ok: bool,
             vec_ws: Vec<(u8, W, bool)>, vec_w: Option<W>, tgt_init: bool, iw: u16 }
fn snapshot(m: &mut Machine, kb_locked: bool, st: &Setup) -> Pre {
    let cands = pending(m, kb_locked);
    let s = &m.sim;
    let psr = s.psr().get();
    let mut regs = [(0u16, 0u16); 8];
    for k in 0..8u8 { regs[k as usize] = s.reg_file[reg(k)].verif_parts(); }
    let privl = psr & 0x8000 == 0 || st.ignore_priv;
    let vec_ws = cands.iter().filter_map(|c| match c { Pend::Now(PIrq::V(v, _)) | Pend::Draw(_, PIrq::V(v, _)) => {
        let w = s.mem[0x100 + *v as u16].verif_parts(); Some((*v, w, s.mem[w.0].is_init())) } _ => None }).collect();
    Pre { pc: s.pc, psr, regs, ssp: s.verif_saved_sp().verif_parts(), instrs: s.instructions_run, flen: s.frame_stack.len() as usize,
          cands, win: None, strict: st.strict, fetch_ok: privl || (0x3000..0xFE00).contains(&s.pc), vec_ws, vec_w: None, tgt_init: true, iw: s.mem[s.pc].get() }
}
/// after the step: settle the timers that drew a fresh count and fix the winner
fn settle(p: &mut Pre, m: &Machine) {
    p.win = winner(&resolve(m, &p.cands));
    if let Some(PIrq::V(v, _)) = p.win {
        if let Some((_, w, ti)) = p.vec_ws.iter().find(|x| x.0 == v) { p.vec_w = Some(*w); p.tgt_init = *ti; }
    }
}
/// Some(vect, prio) when the reference says the interrupt is taken at this boundary
fn expect_taken(p: &Pre) -> Option<(u8, u8)> {
    match p.win { Some(PIrq::V(v, pr)) if (pr as u16) > (p.psr >> 8 & 7) => Some((v, pr)), _ => None }
}
/// compare the step with the reference; returns a description of the first discrepancy
fn check_step(p: &Pre, m: &Machine, out: &Outcome, obs: &Tree, stats: &EntryStats) -> Option<String> {
    let s = &m.sim;
    let read_at_pc = obs.as_l().and_then(|l| l.get(10)).and_then(|t| t.as_l())
        .map(|l| l.iter().any(|e| e.as_l().map(|e| e[0] == I(p.pc as i128) && e[1].as_i().unwrap_or(0) & 1 == 1).unwrap_or(false))).unwrap_or(false);
    if p.win == Some(PIrq::E) {
        stats.ext.fetch_add(1, Relaxed);
        if *out != Outcome::Err(5) || s.instructions_run != p.instrs || s.pc != p.pc {
            return Some(format!("external interrupt pending at pc={:#06x} but the step gave {:?} (pc {:#06x}, instrs {}->{})", p.pc, out, s.pc, p.instrs, s.instructions_run));
        }
        return None;
    }
    match expect_taken(p) {
        Some((v, pr)) => {
            let user = p.psr & 0x8000 != 0;
            let src = if user { p.ssp } else { p.regs[6] };
            let vw = p.vec_w.unwrap();
            if p.strict && (src.1 != 0xFFFF || vw.1 != 0xFFFF || !p.tgt_init) { stats.skipped_strict.fetch_add(1, Relaxed); return None; }
            stats.taken.fetch_add(1, Relaxed);
            if user { stats.taken_user.fetch_add(1, Relaxed); }
            let sp0 = src.0;
            let mut bad = vec![];
            if *out != Outcome::Ok { bad.push(format!("outcome {:?}", out)); }
            if s.instructions_run != p.instrs { bad.push(format!("instructions_run {}->{}", p.instrs, s.instructions_run)); }
            if s.frame_stack.len() as usize != p.flen + 1 { bad.push(format!("frame depth {}->{}", p.flen, s.frame_stack.len())); }
            let (a1, a2) = (sp0.wrapping_sub(1), sp0.wrapping_sub(2));
            let vaddr = 0x100 + v as u16;
            if p.strict && (a1 == vaddr || a2 == vaddr) {
                // the pushes overwrite the vector entry itself: the handler address (and whether the word there is
                // initialised, which strict mode checks) is no longer the one of the snapshot; left to the model
                stats.skipped_strict.fetch_add(1, Relaxed);
                return None;
            }
            if a1 >= 0xFE00 || a2 >= 0xFE00 {
                // the pushes go to device / internal registers (a mapped PSR or MCR changes the rest of the
                // entry): outside the reference; the model covers these states in the correspondence runs
                stats.io_stack.fetch_add(1, Relaxed);
                return None;
            }
            let want_psr = (p.psr & 0x78F8) | (pr as u16) << 8 | 2;
            if s.psr().get() != want_psr { bad.push(format!("PSR {:#06x}, expected {:#06x}", s.psr().get(), want_psr)); }
            if s.reg_file[reg(6)].get() != sp0.wrapping_sub(2) { bad.push(format!("R6 {:#06x}, expected {:#06x}", s.reg_file[reg(6)].get(), sp0.wrapping_sub(2))); }
            let want_ssp = if user { p.regs[6] } else { p.ssp };
            if s.verif_saved_sp().verif_parts() != want_ssp { bad.push(format!("saved SP {:?}, expected {:?}", s.verif_saved_sp().verif_parts(), want_ssp)); }
            for k in [0u8, 1, 2, 3, 4, 5, 7] { if s.reg_file[reg(k)].verif_parts() != p.regs[k as usize] { bad.push(format!("R{k} changed")); } }
            {
                if s.mem[a1].verif_parts() != (p.psr, 0xFFFF) { bad.push(format!("mem[SSP-1]={:?}, expected old PSR {:#06x}", s.mem[a1].verif_parts(), p.psr)); }
                if s.mem[a2].verif_parts() != (p.pc, 0xFFFF) { bad.push(format!("mem[SSP-2]={:?}, expected old PC {:#06x}", s.mem[a2].verif_parts(), p.pc)); }
            }
            let tgt = s.mem[0x100 + v as u16].get();
            if s.pc != tgt { bad.push(format!("PC {:#06x}, expected mem[x{:03x}]={:#06x}", s.pc, 0x100 + v as u16, tgt)); }
            if bad.is_empty() { None } else {
                Some(format!("interrupt vect={v:#04x} prio={pr} must be taken at pc={:#06x} psr={:#06x} ({}): {}", p.pc, p.psr, if user { "user" } else { "supervisor" }, bad.join("; ")))
            }
        }
        None => {
            stats.not_taken.fetch_add(1, Relaxed);
            if p.win.is_some() { stats.gated.fetch_add(1, Relaxed); }
            if p.fetch_ok && !read_at_pc {
                return Some(format!("no interrupt is due at pc={:#06x} psr={:#06x} (winner {:?}) but no instruction was fetched (outcome {:?}, pc now {:#06x})", p.pc, p.psr, p.win, out, s.pc));
            }
            // the current priority (the gate of later requests) changes only by taking an interrupt or by RTI:
            // a TRAP instruction, virtual or through the OS, leaves PSR[10:8] alone (fetched from memory proper:
            // at a PC in the I/O page the executed word is a device's answer, not `iw`)
            if *out == Outcome::Ok && read_at_pc && p.pc < 0xFE00 && p.iw >> 12 == 0xF && (s.psr().get() ^ p.psr) & 0x0700 != 0 {
                let sp0 = if p.psr & 0x8000 != 0 { p.ssp.0 } else { p.regs[6].0 };
                if sp0.wrapping_sub(1) < 0xFE00 && sp0.wrapping_sub(2) < 0xFE00 {
                    return Some(format!("TRAP x{:02X} at pc={:#06x} changes the current priority: PSR {:#06x} -> {:#06x} (a pending request of priority <= {} would now be taken inside the routine)", p.iw & 0xFF, p.pc, p.psr, s.psr().get(), p.psr >> 8 & 7));
                }
            }
            None
        }
    }
}
#[derive(Default)]
struct EntryStats { taken: AtomicU64, taken_user: AtomicU64, not_taken: AtomicU64, gated: AtomicU64, ext: AtomicU64, skipped_strict: AtomicU64, io_stack: AtomicU64 }

// ------------------------------------------------------------------ running a machine
#[derive(PartialEq, Debug, Clone)]
enum EndK { Halt, McrOff, Err(i128), Limit, Panic }
struct RunRes { end: EndK, steps: usize, taken: Vec<(u8, u8)>, envs: Vec<Tree>, obs: Vec<Tree>, m: Machine, state: Tree }
fn replay_of(state: &Tree, envs: &[Tree]) -> String { format!("sim.run\t{}", L(vec![state.clone(), L(envs.to_vec())])) }

/// step until a virtual HALT / MCR off / error / limit, checking the entry reference at every step
fn run_machine(ctx: &Ctx, st: &Setup, limit: usize, keep_obs: bool, stats: &EntryStats) -> RunRes {
    let mut m = build(st);
    let state = t_setup(st, &mut m);
    let (mut envs, mut obs, mut taken) = (vec![], vec![], vec![]);
    let mut end = EndK::Limit;
    let mut steps = 0;
    while steps < limit {
        let mut pre = snapshot(&mut m, false, st);
        let (out, env, o) = m.step(false, false);
        settle(&mut pre, &m);
        steps += 1;
        envs.push(env);
        if out != Outcome::Panic { if let Some(what) = check_step(&pre, &m, &out, &o, stats) {
            ctx.fail("C10", "entry_snapshot", what, replay_of(&state, &envs));
        } }
        if keep_obs { obs.push(o); }
        let tk = expect_taken(&pre);
        if let Some(x) = tk { taken.push(x); }
        match out {
            Outcome::Panic => { end = EndK::Panic; break; }
            Outcome::Err(c) => { end = EndK::Err(c); break; }
            Outcome::Ok => {}
        }
        if !m.sim.mcr().load(Relaxed) { end = EndK::McrOff; break; }
        if !st.real && tk.is_none() && m.sim.pc == pre.pc && m.sim.instructions_run == pre.instrs && m.sim.mem[pre.pc].get() == HALT { end = EndK::Halt; break; }
    }
    RunRes { end, steps, taken, envs, obs, m, state }
}
fn case_of(rr: &RunRes) -> (Tree, Tree) {
    (L(vec![rr.state.clone(), L(rr.envs.clone())]), L(vec![L(rr.obs.clone()), rr.m.mem_diff()]))
}

// ------------------------------------------------------------------ transparency
struct Fin { end: EndK, regs: Vec<W>, pc: u16, psr: u16, ssp: W, disp: Vec<u8>, kbq: Vec<u8>, umem: Vec<W> }
fn fin_of(rr: &RunRes, with_mem: bool) -> Fin {
    let s = &rr.m.sim;
    Fin { end: rr.end.clone(), regs: (0..8u8).map(|k| s.reg_file[reg(k)].verif_parts()).collect(), pc: s.pc, psr: s.psr().get(),
          ssp: s.verif_saved_sp().verif_parts(),
          disp: rr.m.ds.as_ref().map(|b| b.read().unwrap_or_else(|e| e.into_inner()).clone()).unwrap_or_default(),
          kbq: rr.m.kb.as_ref().map(|b| b.read().unwrap_or_else(|e| e.into_inner()).iter().copied().collect()).unwrap_or_default(),
          umem: if with_mem { (0x3000..0xFE00u16).map(|a| s.mem[a].verif_parts()).collect() } else { vec![] } }
}
/// the interrupted run against the uninterrupted one
fn diff_final(base: &Fin, rr: &RunRes, cmp_kb: bool) -> Option<String> {
    let f = fin_of(rr, false);
    if f.end != base.end { return Some(format!("ends with {:?} after {} steps, the uninterrupted run with {:?}", f.end, rr.steps, base.end)); }
    for k in 0..8 { if f.regs[k] != base.regs[k] { return Some(format!("R{k} = {:?}, uninterrupted {:?}", f.regs[k], base.regs[k])); } }
    if f.psr != base.psr { return Some(format!("PSR = {:#06x}, uninterrupted {:#06x}", f.psr, base.psr)); }
    if f.pc != base.pc { return Some(format!("PC = {:#06x}, uninterrupted {:#06x}", f.pc, base.pc)); }
    if f.ssp != base.ssp { return Some(format!("saved SP = {:?}, uninterrupted {:?}", f.ssp, base.ssp)); }
    if f.disp != base.disp { return Some(format!("display output {:?}, uninterrupted {:?}", String::from_utf8_lossy(&f.disp), String::from_utf8_lossy(&base.disp))); }
    if cmp_kb && f.kbq != base.kbq { return Some("keyboard queue differs".into()); }
    let s = &rr.m.sim;
    for (k, a) in (0x3000..0xFE00u16).enumerate() {
        if s.mem[a].verif_parts() != base.umem[k] { return Some(format!("user memory at {a:#06x} = {:?}, uninterrupted {:?}", s.mem[a].verif_parts(), base.umem[k])); }
    }
    None
}
/// every handler ran exactly as often as the reference predicted; the keyboard handler stored the consumed characters
fn check_handlers(pl: &Plan, rr: &RunRes, kb_in: &[u8]) -> Option<String> {
    for h in &pl.handlers {
        let want = rr.taken.iter().filter(|(v, _)| *v == h.vect).count() as u16;
        let got = rr.m.sim.mem[h.cnt].get();
        if got != want { return Some(format!("handler of vector {:#04x} completed {got} times, the reference predicts {want} entries", h.vect)); }
        if h.kind == 3 && h.vect == 0x80 {
            let left = rr.m.kb.as_ref().map(|b| b.read().unwrap_or_else(|e| e.into_inner()).len()).unwrap_or(0);
            let consumed = kb_in.len() - left.min(kb_in.len());
            for k in 0..(if want <= 16 { consumed.min(want as usize) } else { 0 }) {
                if rr.m.sim.mem[h.buf + k as u16].get() != kb_in[k] as u16 { return Some(format!("keyboard handler stored {:#x} as character {k}, typed {:#x}", rr.m.sim.mem[h.buf + k as u16].get(), kb_in[k])); }
            }
        }
    }
    None
}
fn script_of(sched: &[(usize, Irq)]) -> Vec<Option<Irq>> {
    let n = sched.iter().map(|x| x.0 + 1).max().unwrap_or(0);
    let mut l = vec![None; n];
    for (p, i) in sched { l[*p] = Some(i.clone()); }
    l
}

const VECTS: [u8; 10] = [0x00, 0x01, 0x02, 0x03, 0x40, 0x80, 0x81, 0x90, 0xFE, 0xFF];
fn pick_vects(r: &mut Rng, n: usize) -> Vec<u8> {
    let mut v: Vec<u8> = vec![];
    while v.len() < n { let x = *r.pick(&VECTS); if !v.contains(&x) { v.push(x); } }
    v
}
fn pick_opts(r: &mut Rng) -> Opts {
    Opts { real: r.chance(1, 3), strict: r.chance(1, 6), frames: r.chance(1, 3), privileged: r.chance(1, 6),
           base_prio: *r.pick(&[0u16, 0, 0, 0, 1, 3, 4]), kb: None }
}
fn pick_prios(r: &mut Rng, n: usize, base: u16) -> Vec<u8> {
    // competing patterns: equal, rising (nesting), falling, at / below the program's priority, clamped
    let hi = |r: &mut Rng| (base as u8 + 1 + r.below(7 - base as u64) as u8).min(7);
    (0..n).map(|k| match r.below(8) { 0 => base as u8, 1 if k > 0 => 9, 2 => 7, _ => hi(r) }).collect()
}

/// exhaustive placement of up to `kmax` scripted interrupts over every boundary of one program
fn exhaustive(ctx: &Ctx, root: &Rng, pid: usize, kmax: usize, nmax: usize, case_budget: &AtomicU64, stats: &EntryStats, tot: &Totals) {
    let mut r = root.fork(0x1000 + pid as u64);
    let opts = pick_opts(&mut r);
    let vects = pick_vects(&mut r, kmax);
    let prios = pick_prios(&mut r, kmax, opts.base_prio);
    let kinds: Vec<u8> = (0..kmax).map(|_| *r.pick(&[0u8, 1, 1, 2, 2, 4])).collect();
    let hv: Vec<(u8, u8)> = vects.iter().copied().zip(kinds.iter().copied()).collect();
    // a program whose uninterrupted run is short enough
    let mut found = None;
    for _attempt in 0..400 {
        let cfg = GenCfg { blocks: 2 + r.below(4) as usize, input: false, putsp: false, fault: Fault::None, long_loops: false, fault_in_sub: false };
        let up = gen_user(&mut r, &cfg);
        let mut pl = make_plan(&mut r, &up, &hv, &opts);
        pl.st.extras = vec![Extra::Script(vec![])];
        let rr = run_machine(ctx, &pl.st, 4000, false, stats);
        if matches!(rr.end, EndK::Halt | EndK::McrOff) && rr.steps >= 4 && rr.steps <= nmax { found = Some((pl, rr)); break; }
        tot.discarded.fetch_add(1, Relaxed);
    }
    let Some((pl, base_rr)) = found else {
        ctx.fail("C10", "no_halting_baseline", format!("none of 400 generated fault-free programs (set {pid}) reaches its HALT without interrupts"), "irq.baseline\t()".into());
        return;
    };
    let base = fin_of(&base_rr, true);
    let n0 = base_rr.steps;
    tot.programs.fetch_add(1, Relaxed);
    tot.base_steps.fetch_add(n0 as u64, Relaxed);
    let limit = n0 * 4 + 400;
    let irq_at = |k: usize| Irq::Vec(vects[k], prios[k]);
    let mut level: Vec<(Vec<(usize, Irq)>, usize)> = vec![(vec![], n0)];
    for k in 0..kmax {
        let mut todo: Vec<Vec<(usize, Irq)>> = vec![];
        for (sched, t) in &level {
            let from = sched.last().map(|x| x.0 + 1).unwrap_or(0);
            for p in from..*t { let mut s = sched.clone(); s.push((p, irq_at(k))); todo.push(s); }
        }
        let next: Mutex<Vec<(Vec<(usize, Irq)>, usize)>> = Mutex::new(vec![]);
        par_for(todo.len(), |j| {
            let mut st = pl.st.clone();
            st.extras = vec![Extra::Script(script_of(&todo[j]))];
            let want_case = j % 7 == (pid % 7) && case_budget.load(Relaxed) > 0;
            let rr = run_machine(ctx, &st, limit, want_case, stats);
            tot.runs.fetch_add(1, Relaxed); tot.steps.fetch_add(rr.steps as u64, Relaxed);
            tot.entries.fetch_add(rr.taken.len() as u64, Relaxed);
            if rr.taken.len() >= 2 { tot.multi.fetch_add(1, Relaxed); }
            if let Some(what) = diff_final(&base, &rr, true) {
                ctx.fail("C10", "not_transparent", format!("interrupts at boundaries {:?} (vect,prio {:?}): {what}", todo[j].iter().map(|x| x.0).collect::<Vec<_>>(), todo[j].iter().map(|x| x.1.clone()).collect::<Vec<_>>()), replay_of(&rr.state, &rr.envs));
            } else if let Some(what) = check_handlers(&pl, &rr, &[]) {
                ctx.fail("C10", "handler_count", format!("interrupts at boundaries {:?}: {what}", todo[j].iter().map(|x| x.0).collect::<Vec<_>>()), replay_of(&rr.state, &rr.envs));
            }
            if want_case {
                case_budget.fetch_sub(1, Relaxed);
                let (i, o) = case_of(&rr);
                ctx.case_to(j, "sim.run", &i, &o);
            }
            next.lock().unwrap().push((todo[j].clone(), rr.steps));
        });
        level = next.into_inner().unwrap();
        level.sort_by(|a, b| a.0.iter().map(|x| x.0).collect::<Vec<_>>().cmp(&b.0.iter().map(|x| x.0).collect::<Vec<_>>()));
        ctx.stat(&format!("c10.exhaustive.k{}", k + 1), todo.len() as i64);
    }
}

/// random schedules: several scripted devices, keyboard interrupts, timers
fn random_sched(ctx: &Ctx, root: &Rng, pid: usize, nsched: usize, case_budget: &AtomicU64, stats: &EntryStats, tot: &Totals) {
    let mut r = root.fork(0x2000_0000 + pid as u64);
    let mut opts = pick_opts(&mut r);
    let use_kb = r.chance(1, 2);
    let kb_in: Vec<u8> = (0..1 + r.below(6)).map(|_| 0x20 + r.below(0x5F) as u8).collect();
    if use_kb { opts.kb = Some((kb_in.clone(), true)); }
    let mut vects = pick_vects(&mut r, 4);
    vects.retain(|v| *v != 0x80);
    let mut hv: Vec<(u8, u8)> = vects.iter().map(|v| (*v, *r.pick(&[0u8, 1, 2, 4]))).collect();
    hv.push((0x80, 3));
    let mut found = None;
    for _attempt in 0..400 {
        let cfg = GenCfg { blocks: 3 + r.below(8) as usize, input: false, putsp: false, fault: Fault::None, long_loops: r.chance(1, 2), fault_in_sub: false };
        let up = gen_user(&mut r, &cfg);
        let mut o2 = opts.clone(); o2.kb = opts.kb.as_ref().map(|(q, _)| (q.clone(), false));
        let mut pl = make_plan(&mut r, &up, &hv, &o2);
        let rr = run_machine(ctx, &pl.st, 6000, false, stats);
        pl.st.kb = opts.kb.clone();
        if matches!(rr.end, EndK::Halt | EndK::McrOff) && rr.steps >= 4 { found = Some((pl, rr)); break; }
        tot.discarded.fetch_add(1, Relaxed);
    }
    let Some((pl, base_rr)) = found else {
        ctx.fail("C10", "no_halting_baseline", format!("none of 400 generated fault-free programs (random set {pid}) reaches its HALT without interrupts"), "irq.baseline\t()".into());
        return;
    };
    let base = fin_of(&base_rr, true);
    let n0 = base_rr.steps;
    tot.programs.fetch_add(1, Relaxed);
    tot.base_steps.fetch_add(n0 as u64, Relaxed);
    let limit = n0 * 12 + 3000;
    let rs = Rng::new(r.next());
    par_for(nsched, |j| {
        let mut r = rs.fork(j as u64 + 1);
        let mut st = pl.st.clone();
        let len = n0 * 2 + 60;
        // a device keeps its priority (then a handler cannot nest with itself and its counter is exact);
        // in "wild" schedules every request draws its own priority and only transparency is checked
        let wild = r.chance(1, 4);
        let prio_of = |v: u8| -> u8 { if v == 0x80 { 4 } else { 1 + (v % 7) } };
        for _ in 0..1 + r.below(3) {
            let dens = *r.pick(&[6u64, 12, 30, 80]);
            let v = *r.pick(&hv);
            let fixed = r.chance(1, 2);
            let l = (0..len).map(|_| if r.below(dens) == 0 {
                let (vv, _) = if fixed { v } else { *r.pick(&hv) };
                Some(Irq::Vec(vv, if wild { r.below(10) as u8 } else { prio_of(vv) }))
            } else { None }).collect();
            st.extras.push(Extra::Script(l));
        }
        if r.chance(1, 3) {
            let lo = 25 + r.below(40) as u32;
            let (vv, _) = *r.pick(&hv);
            st.extras.push(Extra::Timer { enabled: true, lo, hi: lo + r.below(30) as u32, seed: r.next(), vect: vv, prio: if wild { 1 + r.below(9) as u8 } else { prio_of(vv) } });
            tot.with_timer.fetch_add(1, Relaxed);
        }
        let want_case = j % 5 == 0 && case_budget.load(Relaxed) > 0;
        let rr = run_machine(ctx, &st, limit, want_case, stats);
        tot.runs.fetch_add(1, Relaxed); tot.steps.fetch_add(rr.steps as u64, Relaxed);
        tot.entries.fetch_add(rr.taken.len() as u64, Relaxed);
        if rr.taken.len() >= 2 { tot.multi.fetch_add(1, Relaxed); }
        if use_kb { tot.with_kb.fetch_add(1, Relaxed); tot.kb_entries.fetch_add(rr.taken.iter().filter(|x| *x == &(0x80, 4)).count() as u64, Relaxed); }
        if rr.end == EndK::Limit { tot.limit.fetch_add(1, Relaxed); }
        else if let Some(what) = diff_final(&base, &rr, !use_kb) {
            ctx.fail("C10", "not_transparent", format!("random schedule {j} of program {pid} ({} entries {:?}): {what}", rr.taken.len(), &rr.taken[..rr.taken.len().min(6)]), replay_of(&rr.state, &rr.envs));
        } else if let Some(what) = if wild { None } else { check_handlers(&pl, &rr, if use_kb { &kb_in } else { &[] }) } {
            ctx.fail("C10", "handler_count", format!("random schedule {j} of program {pid}: {what}"), replay_of(&rr.state, &rr.envs));
        }
        if want_case {
            case_budget.fetch_sub(1, Relaxed);
            let (i, o) = case_of(&rr);
            ctx.case_to(j, "sim.run", &i, &o);
        }
    });
}

/// negative control: a handler that clobbers R0 must be noticed by the transparency oracle
fn negative_control(ctx: &Ctx, root: &Rng, stats: &EntryStats) -> (u64, u64) {
    let mut r = root.fork(0x3333);
    let (mut seen, mut tried) = (0, 0);
    for _ in 0..6 {
        let cfg = GenCfg { blocks: 4, input: false, putsp: false, fault: Fault::None, long_loops: false, fault_in_sub: false };
        let up = gen_user(&mut r, &cfg);
        let o = Opts { real: false, strict: false, frames: false, privileged: false, base_prio: 0, kb: None };
        let mut pl = make_plan(&mut r, &up, &[(0x81, 9)], &o);
        pl.st.extras = vec![Extra::Script(vec![])];
        let b = run_machine(ctx, &pl.st, 4000, false, stats);
        if b.end != EndK::Halt { continue; }
        let base = fin_of(&b, true);
        tried += 1;
        let mut hit = false;
        for p in 0..b.steps {
            let mut st = pl.st.clone();
            st.extras = vec![Extra::Script(script_of(&[(p, Irq::Vec(0x81, 5))]))];
            let rr = run_machine(ctx, &st, 8000, false, stats);
            if diff_final(&base, &rr, true).is_some() { hit = true; break; }
        }
        if hit { seen += 1; }
    }
    (seen, tried)
}

#[derive(Default)]
struct Totals { programs: AtomicU64, discarded: AtomicU64, base_steps: AtomicU64, runs: AtomicU64, steps: AtomicU64, entries: AtomicU64, multi: AtomicU64,
                with_kb: AtomicU64, kb_entries: AtomicU64, with_timer: AtomicU64, limit: AtomicU64 }

/// entry reference on random machine states (any PSR, any stack pointers, strict or not, all device kinds)
fn random_states(ctx: &Ctx, root: &Rng, runs: usize, stats: &EntryStats) {
    let steps = AtomicU64::new(0);
    par_for(runs, |k| {
        let mut r = root.fork(0x5000_0000 + k as u64);
        let mut st = crate::areas::sim::gen_setup(&mut r);
        if r.chance(2, 3) {
            // make an interrupt likely: a script with a request in the first polls
            let l = (0..6).map(|_| match r.below(3) { 0 => None, _ => Some(Irq::Vec(if r.chance(1, 3) { r.below(4) as u8 } else { r.next() as u8 }, r.below(10) as u8)) }).collect();
            st.extras.push(Extra::Script(l));
        }
        let mut m = build(&st);
        let state = t_setup(&st, &mut m);
        let mut envs = vec![];
        let mut errs = 0;
        for _ in 0..1 + r.below(12) {
            let kbl = r.chance(1, 8);
            let has_kb = m.kb.is_some();
            let mut pre = snapshot(&mut m, kbl && has_kb, &st);
            let (out, env, o) = m.step(kbl, false);
            settle(&mut pre, &m);
            envs.push(env);
            steps.fetch_add(1, Relaxed);
            if out == Outcome::Panic { break; }
            if let Some(what) = check_step(&pre, &m, &out, &o, stats) {
                ctx.fail("C10", "entry_snapshot", what, replay_of(&state, &envs));
            }
            if let Outcome::Err(_) = out { errs += 1; if errs >= 2 { break; } }
        }
    });
    ctx.stat("c10.random_states.runs", runs as i64);
    ctx.stat("c10.random_states.steps", steps.load(Relaxed) as i64);
}

// ------------------------------------------------------------------ C12
fn os_string(m: &Machine, label: &str) -> Vec<u8> {
    let obj = lc3_ensemble::sim::_os_obj_file();
    let labels = obj.symbol_table().map(|t| t.verif_labels()).unwrap_or_default();
    let Some(addr) = labels.iter().find(|l| l.0 == label).map(|l| l.1) else { return vec![] };
    let mut out = vec![];
    let mut a = addr;
    loop { let w = m.sim.mem[a].get(); if w == 0 || out.len() > 200 { break; } out.push(w as u8); a = a.wrapping_add(1); }
    out
}
fn exc_label(code: i128) -> Option<&'static str> {
    match code { 0 | 1 => Some("S_EXC_ILLOP"), 2 => Some("S_EXC_PRIVL"), 3 => Some("S_EXC_ACV"), _ => None }
}
struct T12 { progs: AtomicU64, halts: AtomicU64, excs: [AtomicU64; 4], other_err: AtomicU64, lock_steps: AtomicU64, real_tail: AtomicU64, limit: AtomicU64, api_runs: AtomicU64 }

fn c12_pair(ctx: &Ctx, root: &Rng, k: usize, t: &T12, stats: &EntryStats, want_case: bool) {
    let mut r = root.fork(0x7000_0000 + k as u64);
    let fault = match r.below(12) { 0..=4 => Fault::None, 5 => Fault::AcvLoad, 6 => Fault::AcvStore, 7 => Fault::AcvLdr, 8 => Fault::AcvJump, 9 => Fault::PrivRti, 10 => Fault::IllOp, _ => Fault::BadFmt };
    let cfg = GenCfg { blocks: 2 + r.below(9) as usize, input: r.chance(1, 2), putsp: r.chance(1, 2), fault, long_loops: r.chance(1, 4), fault_in_sub: r.chance(1, 3) };
    let up = gen_user(&mut r, &cfg);
    let kbq: Vec<u8> = (0..80).map(|_| if r.chance(1, 10) { r.next() as u8 } else { 0x20 + r.below(0x5F) as u8 }).collect();
    let o = Opts { real: false, strict: r.chance(1, 8), frames: r.chance(1, 3), privileged: false, base_prio: *r.pick(&[0u16, 0, 0, 2]), kb: Some((kbq, false)) };
    let mut pl = make_plan(&mut r, &up, &[], &o);
    // privilege checks switched off in some pairs: the stack switch at OS entry must still follow the PSR
    // (only with programs that stay in user mode and out of the OS's memory: no RTI, no access faults)
    pl.st.ignore_priv = r.chance(1, 4) && matches!(cfg.fault, Fault::None | Fault::IllOp | Fault::BadFmt);
    let stv = pl.st.clone();
    let mut st_real = pl.st.clone(); st_real.real = true;
    let mut mv = build(&stv);
    let mut mr = build(&st_real);
    let (sv, sr) = (t_setup(&stv, &mut mv), t_setup(&st_real, &mut mr));
    let (mut envs, mut obs_v, mut obs_r) = (vec![], vec![], vec![]);
    t.progs.fetch_add(1, Relaxed);
    // ---- lock-step until the virtual run stops
    let mut stop: Option<EndK> = None;
    let limit = 6000;
    for _ in 0..limit {
        let pc0 = mv.sim.pc; let n0 = mv.sim.instructions_run;
        let (ov, env, bv) = mv.step(false, false);
        let (or, _, br_) = mr.step(false, false);
        envs.push(env);
        t.lock_steps.fetch_add(1, Relaxed);
        let stopped = match &ov {
            Outcome::Panic => Some(EndK::Panic),
            Outcome::Err(c) => Some(EndK::Err(*c)),
            Outcome::Ok if mv.sim.pc == pc0 && mv.sim.instructions_run == n0 && mv.sim.mem[pc0].get() == HALT => Some(EndK::Halt),
            Outcome::Ok => None,
        };
        let same = bv == br_ && ov == or;
        if want_case { obs_v.push(bv); obs_r.push(br_); }
        match stopped {
            None => if !same {
                ctx.fail("C12", "step_differs", format!("program {k}: after step {} (pc {pc0:#06x}) the machines under virtual and real traps differ although the virtual step was neither HALT nor an exception", envs.len()), replay_of(&sv, &envs));
                return;
            },
            Some(e) => { stop = Some(e); break; }
        }
    }
    let Some(stop) = stop else {
        t.limit.fetch_add(1, Relaxed);
        if !cfg.input && !cfg.long_loops { ctx.fail("C12", "virtual_run_no_stop", format!("program {k} (no keyboard input, ends in HALT or a fault) does not stop under virtual traps within {limit} steps"), replay_of(&sv, &envs)); }
        return;
    };
    // ---- the real run continues through the OS
    let disp_v = mv.ds.as_ref().unwrap().read().unwrap_or_else(|e| e.into_inner()).clone();
    let mut tail = 0usize;
    let mut envs_r = envs.clone();
    let expect_os = matches!(stop, EndK::Halt | EndK::Err(0..=3));
    if expect_os {
        let mut ended = !mr.sim.mcr().load(Relaxed);
        while !ended && tail < 4000 {
            let (or, env, br_) = mr.step(false, false);
            envs_r.push(env); tail += 1;
            if want_case { obs_r.push(br_); }
            if or != Outcome::Ok { ctx.fail("C12", "real_run_fails", format!("program {k}: the run under real traps stops with {:?} in the OS after the virtual run ended with {:?}", or, stop), replay_of(&sr, &envs_r)); return; }
            ended = !mr.sim.mcr().load(Relaxed);
        }
        t.real_tail.fetch_add(tail as u64, Relaxed);
        if !ended { ctx.fail("C12", "real_run_no_halt", format!("program {k}: under real traps the machine does not turn the clock off within 4000 steps after the virtual run ended with {:?}", stop), replay_of(&sr, &envs_r)); return; }
    }
    let disp_r = mr.ds.as_ref().unwrap().read().unwrap_or_else(|e| e.into_inner()).clone();
    let umem_eq = |a: &Machine, b: &Machine| (0x3000..0xFE00u16).find(|x| a.sim.mem[*x] != b.sim.mem[*x]);
    match &stop {
        EndK::Halt => {
            t.halts.fetch_add(1, Relaxed);
            let mut bad = vec![];
            if disp_r != disp_v { bad.push(format!("display {:?} vs {:?}", String::from_utf8_lossy(&disp_r), String::from_utf8_lossy(&disp_v))); }
            for q in 0..6u8 { if mr.sim.reg_file[reg(q)] != mv.sim.reg_file[reg(q)] { bad.push(format!("R{q} {:?} vs {:?}", mr.sim.reg_file[reg(q)].verif_parts(), mv.sim.reg_file[reg(q)].verif_parts())); } }
            if let Some(a) = umem_eq(&mr, &mv) { bad.push(format!("user memory at {a:#06x}")); }
            if mv.sim.mem[mv.sim.pc].get() != HALT { bad.push("virtual PC not at the HALT".into()); }
            if !bad.is_empty() { ctx.fail("C12", "halt_differs", format!("program {k} (ignore_privilege={}): HALT under real traps (real vs virtual): {}", stv.ignore_priv, bad.join("; ")), replay_of(&sr, &envs_r)); }
        }
        EndK::Err(c) if exc_label(*c).is_some() => {
            t.excs[*c as usize].fetch_add(1, Relaxed);
            let msg = os_string(&mr, exc_label(*c).unwrap());
            let mut want = disp_v.clone(); want.extend(&msg);
            let mut bad = vec![];
            if msg.is_empty() { bad.push("OS message label not found".to_string()); }
            if disp_r != want { bad.push(format!("display {:?}, expected {:?}", String::from_utf8_lossy(&disp_r), String::from_utf8_lossy(&want))); }
            for q in 1..6u8 { if mr.sim.reg_file[reg(q)] != mv.sim.reg_file[reg(q)] { bad.push(format!("R{q} differs")); } }
            if let Some(a) = umem_eq(&mr, &mv) { bad.push(format!("user memory at {a:#06x}")); }
            if !bad.is_empty() { ctx.fail("C12", "exception_differs", format!("program {k}: virtual error code {c}; under real traps: {}", bad.join("; ")), replay_of(&sr, &envs_r)); }
        }
        other => {
            t.other_err.fetch_add(1, Relaxed);
            // any other stop (strict-mode errors): the flag is irrelevant, the last step must agree too
            let (a, b) = (mv.observe(&Outcome::Ok), mr.observe(&Outcome::Ok));
            if a != b { ctx.fail("C12", "step_differs", format!("program {k}: both runs stop with {:?} but in different states", other), replay_of(&sv, &envs)); }
        }
    }
    if want_case {
        ctx.case_to(k, "sim.run", &L(vec![sv.clone(), L(envs.clone())]), &L(vec![L(obs_v), mv.mem_diff()]));
        ctx.case_to(k + 1, "sim.run", &L(vec![sr, L(envs_r)]), &L(vec![L(obs_r), mr.mem_diff()]));
    }
    // ---- the same through the public `run_with_limit`
    if k % 4 == 0 && expect_os {
        t.api_runs.fetch_add(1, Relaxed);
        let (mut av, mut ar) = (build(&stv), build(&st_real));
        let rv = crate::ctx::catch(|| av.sim.run_with_limit(200_000));
        let rr = crate::ctx::catch(|| ar.sim.run_with_limit(200_000));
        let dv = av.ds.as_ref().unwrap().read().unwrap_or_else(|e| e.into_inner()).clone();
        let dr = ar.ds.as_ref().unwrap().read().unwrap_or_else(|e| e.into_inner()).clone();
        let mut bad = vec![];
        match (&stop, &rv) {
            (EndK::Halt, Some(Ok(()))) => { if !av.sim.hit_halt() { bad.push("virtual run() did not report a halt".to_string()); } }
            (EndK::Err(c), Some(Err(e))) if err_code(e) == *c => {}
            _ => bad.push(format!("virtual run() result does not match the stepped run ({:?})", stop)),
        }
        match &rr { Some(Ok(())) => { if !ar.sim.hit_halt() { bad.push("real run() did not stop through the OS".to_string()); } } _ => bad.push("real run() failed".to_string()) }
        if dv != disp_v || dr != disp_r { bad.push("display output of run() differs from the stepped run".to_string()); }
        // the same with the step budget that is exactly enough: the instruction that turns the clock off
        // (or the virtual HALT) is the last one the budget allows
        let total_r = mr.sim.instructions_run.wrapping_sub(st_real.instrs);
        let total_v = mv.sim.instructions_run.wrapping_sub(stv.instrs) + if stop == EndK::Halt { 1 } else { 0 };
        let mut er = build(&st_real);
        let xr = crate::ctx::catch(|| er.sim.run_with_limit(total_r));
        if !matches!(xr, Some(Ok(()))) || !er.sim.hit_halt() || er.sim.mcr().load(Relaxed) {
            bad.push(format!("real run_with_limit({total_r}) (exactly the steps up to the clock turning off): result ok = {}, hit_halt() = {}, clock on = {}", matches!(xr, Some(Ok(()))), er.sim.hit_halt(), er.sim.mcr().load(Relaxed)));
        }
        if total_r > 1 {
            let mut er = build(&st_real);
            let xr = crate::ctx::catch(|| er.sim.run_with_limit(total_r - 1));
            if !matches!(xr, Some(Ok(()))) || er.sim.hit_halt() { bad.push(format!("real run_with_limit({}) (one step short) reports a halt or fails", total_r - 1)); }
        }
        if stop == EndK::Halt {
            let mut ev = build(&stv);
            let xv = crate::ctx::catch(|| ev.sim.run_with_limit(total_v));
            if !matches!(xv, Some(Ok(()))) || !ev.sim.hit_halt() { bad.push(format!("virtual run_with_limit({total_v}) (exactly the steps up to and including HALT) does not report a halt")); }
            if total_v > 1 {
                let mut ev = build(&stv);
                let xv = crate::ctx::catch(|| ev.sim.run_with_limit(total_v - 1));
                if !matches!(xv, Some(Ok(()))) || ev.sim.hit_halt() { bad.push(format!("virtual run_with_limit({}) (one step short of HALT) reports a halt or fails", total_v - 1)); }
            }
        }
        if !bad.is_empty() { ctx.fail("C12", "run_api_differs", format!("program {k}: {}", bad.join("; ")), replay_of(&sv, &envs)); }
    }
    let _ = stats;
}

pub fn run(ctx: &Ctx, _replay: Option<&str>) {
    let root = Rng::new(ctx.seed);
    let stats = EntryStats::default();
    let tot = Totals::default();
    // ---------------- C10
    let budget = AtomicU64::new(ctx.n(600, 12_000));
    let nprog = ctx.n(10, 24) as usize;
    for pid in 0..nprog { exhaustive(ctx, &root, pid, 2, if ctx.quick() { 40 } else { 70 }, &budget, &stats, &tot); }
    if !ctx.quick() { for pid in 0..5 { exhaustive(ctx, &root, 100 + pid, 3, 34, &budget, &stats, &tot); } }
    let budget2 = AtomicU64::new(ctx.n(300, 6000));
    for pid in 0..ctx.n(12, 60) as usize { random_sched(ctx, &root, pid, ctx.n(250, 1500) as usize, &budget2, &stats, &tot); }
    random_states(ctx, &root, ctx.n(12_000, 400_000) as usize, &stats);
    let (seen, tried) = negative_control(ctx, &root, &stats);
    ctx.stat("c10.negative_control.detected", seen as i64);
    ctx.stat("c10.negative_control.tried", tried as i64);
    for (k, v) in [("programs", &tot.programs), ("programs_discarded", &tot.discarded), ("baseline_steps", &tot.base_steps), ("runs", &tot.runs), ("steps", &tot.steps),
                   ("entries", &tot.entries), ("runs_with_2plus_entries", &tot.multi), ("runs_with_keyboard_ie", &tot.with_kb), ("keyboard_entries", &tot.kb_entries),
                   ("runs_with_timer", &tot.with_timer), ("runs_hit_step_limit", &tot.limit)] {
        ctx.stat(&format!("c10.{k}"), v.load(Relaxed) as i64);
    }
    for (k, v) in [("taken", &stats.taken), ("taken_from_user_mode", &stats.taken_user), ("not_taken", &stats.not_taken), ("pending_but_gated", &stats.gated),
                   ("external", &stats.ext), ("skipped_strict_uninit", &stats.skipped_strict), ("stack_in_io_space", &stats.io_stack)] {
        ctx.stat(&format!("c10.entry.{k}"), v.load(Relaxed) as i64);
    }
    // ---------------- C12
    let t = T12 { progs: Default::default(), halts: Default::default(), excs: Default::default(), other_err: Default::default(), lock_steps: Default::default(),
                  real_tail: Default::default(), limit: Default::default(), api_runs: Default::default() };
    let n12 = ctx.n(2500, 60_000) as usize;
    let cases12 = ctx.n(250, 5000) as usize;
    par_for(n12, |k| c12_pair(ctx, &root, k, &t, &stats, k < cases12));
    for (k, v) in [("programs", &t.progs), ("virtual_halt", &t.halts), ("exc_illegal_opcode", &t.excs[0]), ("exc_invalid_format", &t.excs[1]), ("exc_privilege", &t.excs[2]),
                   ("exc_access", &t.excs[3]), ("other_stop", &t.other_err), ("lockstep_steps", &t.lock_steps), ("real_tail_steps", &t.real_tail),
                   ("hit_step_limit", &t.limit), ("run_api_pairs", &t.api_runs)] {
        ctx.stat(&format!("c12.{k}"), v.load(Relaxed) as i64);
    }
}
