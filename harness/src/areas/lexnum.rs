//! C05 — numeric and register tokens: every notation (n, #n, -n, #-n, xH, XH, x-H, X-h, with
//! leading zeros) as a bare token (`Token::lexer`, op `lex.tokens`) and as the operand of every
//! field width (`parse_ast`, op `parse.ast`).
//!
//! Direct oracle (closed form, independent of the model): an unsigned spelling is the token
//! `Unsigned(v)` exactly when v <= 65535, a signed spelling `Signed(v)` exactly when v >= -32768,
//! otherwise the numeric-overflow error over the whole spelling; `R`/`r` + digits is `Reg(n)`
//! exactly when n <= 7; an operand is accepted exactly when its value fits the field (imm5,
//! offset6, PCoffset9/11 signed; trapvect8, .orig unsigned; .blkw unsigned non-zero; .fill either)
//! and the parsed statement then carries exactly that value.
//!
//! quick: boundaries +-3 of every field/type in every notation and field, 20 000 random spellings
//! (up to 45 digits); thorough: every integer of [-70000, 140000] in every notation as a bare
//! token and in every field (each field sees every integer in half of the notations, alternating
//! with the value).
use super::parse::{lex_tree, parse_tree};
use crate::ctx::{par_for, Ctx};
use crate::rng::Rng;
use crate::tree::*;

/// a spelled number: digits (without sign/prefix), its sign and notation
#[derive(Clone)]
struct Sp { text: String, neg: bool, digits: String, radix: u32 }

/// value of a digit string if its magnitude is below 2^40, else None (= out of every range)
fn magnitude(digits: &str, radix: u32) -> Option<i64> {
    let d = digits.trim_start_matches('0');
    if d.len() > 10 { return None; }
    Some(i64::from_str_radix(if d.is_empty() { "0" } else { d }, radix).unwrap())
}
impl Sp {
    fn value(&self) -> Option<i64> { magnitude(&self.digits, self.radix).map(|m| if self.neg { -m } else { m }) }
}
const NOTATIONS: usize = 8;
/// notation k of magnitude digits `d` (decimal for k < 4, hex otherwise)
fn spell(k: usize, lz: usize, mag: u64, case_bits: u64) -> Sp {
    let z = "0".repeat(lz);
    let hexd = |upper_all: bool| -> String {
        format!("{mag:x}").chars().enumerate().map(|(j, c)| if upper_all || (case_bits >> (j % 60)) & 1 == 1 { c.to_ascii_uppercase() } else { c }).collect()
    };
    let (text, neg, digits, radix) = match k {
        0 => (format!("{z}{mag}"), false, format!("{z}{mag}"), 10),
        1 => (format!("#{z}{mag}"), false, format!("{z}{mag}"), 10),
        2 => (format!("-{z}{mag}"), true, format!("{z}{mag}"), 10),
        3 => (format!("#-{z}{mag}"), true, format!("{z}{mag}"), 10),
        4 => { let h = hexd(false); (format!("x{z}{h}"), false, format!("{z}{h}"), 16) }
        5 => { let h = hexd(true); (format!("X{z}{h}"), false, format!("{z}{h}"), 16) }
        6 => { let h = hexd(true); (format!("x-{z}{h}"), true, format!("{z}{h}"), 16) }
        _ => { let h = hexd(false); (format!("X-{z}{h}"), true, format!("{z}{h}"), 16) }
    };
    Sp { text, neg, digits, radix }
}
fn notation_applies(k: usize, v: i64) -> bool { if matches!(k, 2 | 3 | 6 | 7) { v <= 0 } else { v >= 0 } }

// ---------------- bare token ----------------
fn check_bare(ctx: &Ctx, shard: Option<usize>, sp: &Sp) {
    let s = &sp.text;
    let got = lex_tree(s);
    let input = chars(s);
    match shard { Some(k) => ctx.case_to(k, "lex.tokens", &input, &got), None => ctx.case("lex.tokens", &input, &got) }
    let n = s.len();
    let want = match sp.value() {
        Some(v) if !sp.neg && v <= 65535 => ok(vec![L(vec![L(vec![L(vec![i(0), i(v)]), iu(0), iu(n)])])]),
        Some(v) if sp.neg && v >= -32768 => ok(vec![L(vec![L(vec![L(vec![i(1), i(v)]), iu(0), iu(n)])])]),
        _ => err(vec![L(vec![]), i(if sp.neg { 1 } else { 0 }), iu(0), iu(n)]),
    };
    if got != want {
        ctx.fail("C05", "bare_token", format!("Token::lexer({s:?}) = {got}, expected {want}"), format!("lex.tokens\t{input}"));
    }
}
fn check_reg(ctx: &Ctx, text: &str, digits: &str) {
    let got = lex_tree(text);
    ctx.case("lex.tokens", &chars(text), &got);
    let n = text.len();
    let want = match magnitude(digits, 10) {
        Some(v) if v <= 7 => ok(vec![L(vec![L(vec![L(vec![i(2), i(v)]), iu(0), iu(n)])])]),
        _ => err(vec![L(vec![]), i(9), iu(0), iu(n)]),
    };
    if got != want {
        ctx.fail("C05", "register_token", format!("Token::lexer({text:?}) = {got}, expected {want}"), format!("lex.tokens\t{}", chars(text)));
    }
}

// ---------------- operands ----------------
/// (prefix, lo, hi, nonzero, builder of the nucleus tree from the stored value)
struct Field { name: &'static str, prefix: &'static str, lo: i64, hi: i64, nonzero: bool }
const FIELDS: [Field; 9] = [
    Field { name: "imm5", prefix: "ADD R1, R2, ", lo: -16, hi: 15, nonzero: false },
    Field { name: "offset6", prefix: "LDR R3, R4, ", lo: -32, hi: 31, nonzero: false },
    Field { name: "pcoffset9", prefix: "LD R5, ", lo: -256, hi: 255, nonzero: false },
    Field { name: "pcoffset9br", prefix: "BRnp ", lo: -256, hi: 255, nonzero: false },
    Field { name: "pcoffset11", prefix: "JSR ", lo: -1024, hi: 1023, nonzero: false },
    Field { name: "trapvect8", prefix: "TRAP ", lo: 0, hi: 255, nonzero: false },
    Field { name: "orig", prefix: ".orig ", lo: 0, hi: 65535, nonzero: false },
    Field { name: "blkw", prefix: ".blkw ", lo: 0, hi: 65535, nonzero: true },
    Field { name: "fill", prefix: ".fill ", lo: -32768, hi: 65535, nonzero: false },
];
fn nucleus(f: &Field, v: i64) -> Tree {
    match f.name {
        "imm5" => L(vec![i(0), L(vec![i(0), i(1), i(2), L(vec![i(0), i(v)])])]),
        "offset6" => L(vec![i(0), L(vec![i(8), i(3), i(4), i(v)])]),
        "pcoffset9" => L(vec![i(0), L(vec![i(6), i(5), L(vec![i(0), i(v)])])]),
        "pcoffset9br" => L(vec![i(0), L(vec![i(2), i(5), L(vec![i(0), i(v)])])]),
        "pcoffset11" => L(vec![i(0), L(vec![i(4), L(vec![i(0), i(v)])])]),
        "trapvect8" => L(vec![i(0), L(vec![i(16), i(v)])]),
        "orig" => L(vec![i(1), L(vec![i(0), i(v)])]),
        "blkw" => L(vec![i(1), L(vec![i(2), i(v)])]),
        _ => L(vec![i(1), L(vec![i(1), L(vec![i(0), i(v.rem_euclid(65536))])])]),
    }
}
fn check_field(ctx: &Ctx, shard: Option<usize>, f: &Field, sp: &Sp) {
    let text = format!("{}{}", f.prefix, sp.text);
    let got = parse_tree(&text);
    let input = chars(&text);
    match shard { Some(k) => ctx.case_to(k, "parse.ast", &input, &got), None => ctx.case("parse.ast", &input, &got) }
    let fits = match sp.value() { Some(v) => f.lo <= v && v <= f.hi && !(f.nonzero && v == 0), None => false };
    let accepted = matches!(&got, Tree::L(v) if v[0] == i(0));
    let want = sp.value().map(|v| ok(vec![L(vec![L(vec![L(vec![]), nucleus(f, v), iu(0), iu(text.len())])])]));
    let good = if fits { Some(&got) == want.as_ref() } else { !accepted && got != panic() };
    if !good {
        ctx.fail("C05", &format!("operand_{}", f.name), format!("parse_ast({text:?}) = {got}; value {:?} {} the field {} [{}, {}]{}", sp.value(), if fits { "fits" } else { "does not fit" }, f.name, f.lo, f.hi, if f.nonzero { " non-zero" } else { "" }),
            format!("parse.ast\t{input}"));
    }
}

pub fn run(ctx: &Ctx, _replay: Option<&str>) {
    // replay: every case derives from the seed, the whole area is simply re-run
    let mut r = Rng::new(ctx.seed).fork(5);
    let mut n_bare = 0i64; let mut n_field = 0i64; let mut n_reg = 0i64;

    // ---- boundaries +-3 of every type and field, every notation, three leading-zero counts, every field ----
    let mut edges: Vec<i64> = vec![];
    for b in [0i64, 15, 16, -16, -17, 31, 32, -32, -33, 255, 256, -256, -257, 1023, 1024, -1024, -1025, 32767, 32768, -32768, -32769, 65535, 65536, -65535, -65536, 7, 8] {
        for d in -3..=3 { edges.push(b + d); }
    }
    edges.sort(); edges.dedup();
    for &v in &edges {
        for k in 0..NOTATIONS {
            if !notation_applies(k, v) { continue; }
            for lz in [0usize, 1, 4] {
                let sp = spell(k, lz, v.unsigned_abs(), r.next());
                check_bare(ctx, None, &sp); n_bare += 1;
                for f in &FIELDS { check_field(ctx, None, f, &sp); n_field += 1; }
            }
        }
    }
    // ---- registers: every number 0..=300 with 0-3 leading zeros, both letters; random long digit strings ----
    for n in 0..=300u32 {
        for lz in 0..3usize {
            for c in ['R', 'r'] {
                let digits = format!("{}{}", "0".repeat(lz), n);
                check_reg(ctx, &format!("{c}{digits}"), &digits); n_reg += 1;
            }
        }
    }
    for _ in 0..ctx.n(2_000, 50_000) {
        let len = 1 + r.below(40) as usize;
        let digits: String = (0..len).map(|k| if k + 1 < len && r.chance(2, 3) { '0' } else { (b'0' + r.below(10) as u8) as char }).collect();
        check_reg(ctx, &format!("{}{digits}", if r.chance(1, 2) { 'R' } else { 'r' }), &digits); n_reg += 1;
    }
    // ---- random spellings, including magnitudes of up to 45 digits ----
    for _ in 0..ctx.n(20_000, 1_000_000) {
        let k = r.below(NOTATIONS as u64) as usize;
        let lz = match r.below(6) { 0..=2 => 0, 3 => 1, 4 => r.below(4) as usize, _ => r.below(40) as usize };
        let sp = if r.chance(1, 4) {
            // huge: the digits are generated directly
            let len = 6 + r.below(40) as usize;
            let hex = k >= 4;
            let digits: String = (0..len).map(|_| if hex { *r.pick(&['0', '1', '7', '9', 'a', 'C', 'f', 'F']) } else { (b'0' + r.below(10) as u8) as char }).collect();
            let z = "0".repeat(lz);
            let pre = ["", "#", "-", "#-", "x", "X", "x-", "X-"][k];
            Sp { text: format!("{pre}{z}{digits}"), neg: matches!(k, 2 | 3 | 6 | 7), digits: format!("{z}{digits}"), radix: if hex { 16 } else { 10 } }
        } else {
            let mag = match r.below(4) { 0 => r.below(40), 1 => r.below(2000), 2 => r.below(70_000), _ => r.below(200_000) };
            spell(k, lz, mag, r.next())
        };
        check_bare(ctx, None, &sp); n_bare += 1;
        let f = &FIELDS[r.below(FIELDS.len() as u64) as usize];
        check_field(ctx, None, f, &sp); n_field += 1;
    }
    // ---- thorough: every integer of [-70000, 140000] ----
    if !ctx.quick() {
        let (lo, hi) = (-70_000i64, 140_000i64);
        let chunks = 64usize;
        let span = (hi - lo + 1) as usize;
        let seed = ctx.seed;
        par_for(chunks, |c| {
            let mut r = Rng::new(seed).fork(100 + c as u64);
            let (a, b) = (lo + (span * c / chunks) as i64, lo + (span * (c + 1) / chunks) as i64);
            for v in a..b {
                let mut rot = 0usize;
                for k in 0..NOTATIONS {
                    if !notation_applies(k, v) { continue; }
                    let lz = if r.chance(1, 5) { 1 + r.below(4) as usize } else { 0 };
                    let sp = spell(k, lz, v.unsigned_abs(), r.next());
                    check_bare(ctx, Some(c), &sp);
                    // every field sees every integer; the notation rotates with the value
                    for (j, f) in FIELDS.iter().enumerate() {
                        if (j + v.unsigned_abs() as usize + rot) % 2 == 0 { check_field(ctx, Some(c), f, &sp); }
                    }
                    rot += 1;
                }
            }
        });
        ctx.stat("sweep.lo", lo); ctx.stat("sweep.hi", hi);
    }
    ctx.stat("bare", n_bare); ctx.stat("operand", n_field); ctx.stat("register", n_reg);
    ctx.stat("edges", edges.len() as i64);
}
