//! C20 — ObjectFile::link on sets of 2-4 generated files, every order and bracketing.
//! Also the shared machinery of the linker areas (linkext = C21, linkdbg = C22, linkerr = C26):
//! program-text generator (shared / conflicting / external labels, touching / overlapping blocks,
//! `.external` before / between / inside / after the blocks), the REAL parser + assembler produce
//! the objects, views of objects recomputed in Rust for the direct oracles.
use crate::ctx::{catch, Ctx};
use crate::objwire::t_obj;
use crate::rng::Rng;
use crate::tree::*;
use lc3_ensemble::asm::{assemble, assemble_debug, AsmErr, AsmErrKind, ObjectFile};
use lc3_ensemble::parse::parse_ast;
use lc3_ensemble::sim::{SimErr, Simulator};
use std::collections::{BTreeMap, BTreeSet, HashMap, HashSet};

// ------------------------------------------------------------------------------------------
// program generator
// ------------------------------------------------------------------------------------------
#[derive(Clone, Debug)]
pub enum Kind {
    FillNum(u16),
    /// `.fill NAME` of a label defined in the same file
    FillLocal(String),
    /// `.fill NAME` of a label declared `.external` in the same file and not defined in it
    FillExt(String),
    Blkw(u16),
    Stringz(String),
    /// instruction text; `{}` is replaced by a local label when `Some`
    Instr(String, Option<String>),
    /// `.external NAME` standing inside a block
    External(String),
}
#[derive(Clone, Debug)]
pub struct Stmt { pub labels: Vec<String>, pub kind: Kind }
impl Stmt {
    pub fn size(&self) -> u16 {
        match &self.kind {
            Kind::FillNum(_) | Kind::FillLocal(_) | Kind::FillExt(_) | Kind::Instr(..) => 1,
            Kind::Blkw(n) => *n,
            Kind::Stringz(s) => s.len() as u16 + 1,
            Kind::External(_) => 0,
        }
    }
}
#[derive(Clone, Debug)]
pub struct Blk { pub orig: u16, pub stmts: Vec<Stmt>, pub end_labels: Vec<String> }
impl Blk { pub fn len(&self) -> u16 { self.stmts.iter().map(|s| s.size()).sum() } }
#[derive(Clone, Debug)]
pub enum Part { Ext(String), Block(Blk) }
#[derive(Clone, Debug, Default)]
pub struct FileSpec {
    pub parts: Vec<Part>,
    pub debug: bool,
    /// rendering style seed
    pub style: u64,
}
/// What the generator knows about a file by construction (independent of the assembler).
#[derive(Clone, Debug, Default)]
pub struct FileFacts {
    /// label (upper case) -> address, for labels defined in the file
    pub defs: BTreeMap<String, u16>,
    /// labels declared `.external` (upper case) and not defined in the file
    pub externals: BTreeSet<String>,
    /// `.fill` sites of those externals: (address, label)
    pub sites: Vec<(u16, String)>,
    /// (start, length) of every non-empty block
    pub blocks: Vec<(u16, u16)>,
    /// where the first `.external` of a used external stands relative to its uses: 0 before all, 1 between, 2 after all
    pub placement: Vec<u8>,
}

impl FileSpec {
    pub fn facts(&self) -> FileFacts {
        let mut f = FileFacts::default();
        let mut decl_pos: BTreeMap<String, usize> = BTreeMap::new();
        let mut use_pos: BTreeMap<String, Vec<usize>> = BTreeMap::new();
        let mut pos = 0usize;
        for p in &self.parts {
            match p {
                Part::Ext(n) => { f.externals.insert(n.to_uppercase()); decl_pos.entry(n.to_uppercase()).or_insert(pos); pos += 1; }
                Part::Block(b) => {
                    let mut lc = b.orig;
                    for s in &b.stmts {
                        for l in &s.labels { f.defs.insert(l.to_uppercase(), lc); }
                        match &s.kind {
                            Kind::FillExt(n) => { f.sites.push((lc, n.to_uppercase())); use_pos.entry(n.to_uppercase()).or_default().push(pos); }
                            Kind::External(n) => { f.externals.insert(n.to_uppercase()); decl_pos.entry(n.to_uppercase()).or_insert(pos); }
                            _ => {}
                        }
                        pos += 1;
                        lc = lc.wrapping_add(s.size());
                    }
                    for l in &b.end_labels { f.defs.insert(l.to_uppercase(), lc); }
                    if b.len() > 0 { f.blocks.push((b.orig, b.len())); }
                }
            }
        }
        for (n, us) in &use_pos {
            if let Some(d) = decl_pos.get(n) {
                let before = us.iter().all(|u| d < u);
                let after = us.iter().all(|u| d > u);
                f.placement.push(if before { 0 } else if after { 2 } else { 1 });
            }
        }
        f
    }

    /// The program text.  Layout noise (case, colons, comments, blank lines, CRLF, non-ASCII
    /// comments) is drawn from `style`.
    pub fn render(&self) -> String {
        let mut r = Rng::new(self.style);
        let crlf = r.chance(1, 8);
        let nl = if crlf { "\r\n" } else { "\n" };
        let mut out = String::new();
        let case = |r: &mut Rng, s: &str| -> String {
            match r.below(3) { 0 => s.to_uppercase(), 1 => s.to_lowercase(), _ => s.to_string() }
        };
        let comment = |r: &mut Rng| -> String {
            match r.below(8) { 0 => " ; note".into(), 1 => " ; caf\u{e9} \u{2192} x".into(), 2 => "   ".into(), 3 => "\t; A B .fill".into(), _ => String::new() }
        };
        if r.chance(1, 3) { out.push_str("; generated"); out.push_str(nl); }
        if r.chance(1, 6) { out.push_str(nl); }
        for p in &self.parts {
            match p {
                Part::Ext(n) => {
                    let ind = if r.chance(1, 2) { "  " } else { "" };
                    out.push_str(&format!("{ind}{} {}{}{nl}", case(&mut r, ".external"), case(&mut r, n), comment(&mut r)));
                }
                Part::Block(b) => {
                    out.push_str(&format!("{} x{:04X}{}{nl}", case(&mut r, ".orig"), b.orig, comment(&mut r)));
                    for s in &b.stmts {
                        let mut line = String::new();
                        for l in &s.labels {
                            let l = case(&mut r, l);
                            match r.below(4) {
                                0 => { line.push_str(&l); line.push(':'); line.push_str(nl); }
                                1 => { line.push_str(&l); line.push_str(nl); }
                                2 => { line.push_str(&l); line.push_str(": "); }
                                _ => { line.push_str(&l); line.push(' '); }
                            }
                        }
                        if line.is_empty() || line.ends_with('\n') { line.push_str(if r.chance(1, 2) { "    " } else { "" }); }
                        let body = match &s.kind {
                            Kind::FillNum(v) => match r.below(3) { 0 => format!(".fill x{v:04X}"), 1 => format!(".FILL #{v}"), _ => format!(".fill {v}") },
                            Kind::FillLocal(n) | Kind::FillExt(n) => format!("{} {}", case(&mut r, ".fill"), case(&mut r, n)),
                            Kind::Blkw(n) => format!(".blkw {n}"),
                            Kind::Stringz(t) => format!(".stringz \"{t}\""),
                            Kind::Instr(t, None) => t.clone(),
                            Kind::Instr(t, Some(l)) => t.replace("{}", &case(&mut r, l)),
                            Kind::External(n) => format!("{} {}", case(&mut r, ".external"), case(&mut r, n)),
                        };
                        line.push_str(&body);
                        line.push_str(&comment(&mut r));
                        out.push_str(&line);
                        out.push_str(nl);
                        if r.chance(1, 10) { out.push_str(nl); }
                    }
                    let mut line = String::new();
                    for l in &b.end_labels { line.push_str(&case(&mut r, l)); line.push(' '); }
                    line.push_str(&case(&mut r, ".end"));
                    out.push_str(&line);
                    out.push_str(&comment(&mut r));
                    out.push_str(nl);
                }
            }
            if r.chance(1, 8) { out.push_str(nl); }
        }
        if r.chance(1, 3) { while out.ends_with('\n') || out.ends_with('\r') { out.pop(); } }
        out
    }
}

pub struct GenOpts {
    pub nfiles: usize,
    /// chance (in 1/100) that a block is laid out overlapping / colliding with its predecessor
    pub overlap_pct: u64,
    /// chance (in 1/100) that a new label name reuses a name another file defines
    pub conflict_pct: u64,
    /// chance (in 1/100) for each file of being assembled WITHOUT debug symbols
    pub nodebug_pct: u64,
}

const NAMES: [&str; 14] = ["A", "B", "Cc", "D_1", "Loop", "DATA", "w1", "Y_2", "Msg", "FOO", "bar", "Tab", "N", "Zz9"];
const UNDEF: [&str; 3] = ["Undef", "NOWHERE", "q_q"];

/// One set of files.
pub fn gen_set(r: &mut Rng, o: &GenOpts) -> Vec<FileSpec> {
    let n = o.nfiles;
    // 1. names defined per file
    let mut defs: Vec<Vec<String>> = vec![vec![]; n];
    let mut all_defined: Vec<String> = vec![];
    let mut free: Vec<String> = NAMES.iter().map(|s| s.to_string()).collect();
    for f in 0..n {
        let k = r.below(4) as usize;
        for _ in 0..k {
            let others: Vec<String> = all_defined.iter().filter(|x| !defs[f].iter().any(|d| d.eq_ignore_ascii_case(x))).cloned().collect();
            let name = if !others.is_empty() && r.chance(o.conflict_pct, 100) {
                r.pick(&others).clone()
            } else if !free.is_empty() {
                let k = r.below(free.len() as u64) as usize;
                free.swap_remove(k)
            } else { continue };
            if !all_defined.contains(&name) { all_defined.push(name.clone()); }
            defs[f].push(name);
        }
    }
    // 2. externals per file: names other files define, names nobody defines
    let mut exts: Vec<Vec<(String, usize)>> = vec![vec![]; n]; // (name, number of uses)
    for f in 0..n {
        let cand: Vec<String> = all_defined.iter().filter(|x| !defs[f].iter().any(|d| d.eq_ignore_ascii_case(x))).cloned().collect();
        let k = match r.below(10) { 0..=2 => 0, 3..=6 => 1, 7..=8 => 2, _ => 3 };
        for _ in 0..k {
            let name = if !cand.is_empty() && !r.chance(1, 5) { r.pick(&cand).clone() } else { r.pick(&UNDEF).to_string() };
            if exts[f].iter().any(|(e, _)| e.eq_ignore_ascii_case(&name)) { continue; }
            let uses = match r.below(8) { 0 => 0, 1..=5 => 1, _ => 2 };
            exts[f].push((name, uses));
        }
    }
    // 3. blocks per file with statements
    let mut files: Vec<Vec<Blk>> = vec![vec![]; n];
    for f in 0..n {
        let nb = match r.below(12) { 0 => 0, 1..=6 => 1, 7..=10 => 2, _ => 3 };
        let nb = if nb == 0 && (!defs[f].is_empty() || exts[f].iter().any(|e| e.1 > 0)) { 1 } else { nb };
        for _ in 0..nb {
            let ns = 1 + r.below(4) as usize;
            let mut stmts = vec![];
            for _ in 0..ns {
                let kind = match r.below(10) {
                    0..=2 => Kind::FillNum(match r.below(4) { 0 => 0, 1 => 0xFFFF, _ => r.u16() }),
                    3 => Kind::Blkw(1 + r.below(3) as u16),
                    4 => Kind::Stringz(["", "a", "hi"][r.below(3) as usize].to_string()),
                    5..=6 => Kind::Instr(["ADD R0, R0, #1", "AND R1,R2,R3", "HALT", "NOT R4, R5", "RET"][r.below(5) as usize].to_string(), None),
                    _ => Kind::FillNum(r.u16()),
                };
                stmts.push(Stmt { labels: vec![], kind });
            }
            files[f].push(Blk { orig: 0, stmts, end_labels: vec![] });
        }
    }
    // attach labels, local references, external uses
    for f in 0..n {
        if files[f].is_empty() { continue; }
        for name in defs[f].clone() {
            let b = r.below(files[f].len() as u64) as usize;
            let blk = &mut files[f][b];
            if r.chance(1, 8) { blk.end_labels.push(name); }
            else { let s = r.below(blk.stmts.len() as u64) as usize; blk.stmts[s].labels.push(name); }
        }
        // local references inside the same block
        for b in 0..files[f].len() {
            let locals: Vec<String> = files[f][b].stmts.iter().flat_map(|s| s.labels.iter().cloned()).chain(files[f][b].end_labels.iter().cloned()).collect();
            if locals.is_empty() { continue; }
            if r.chance(1, 2) {
                let l = r.pick(&locals).clone();
                let at = r.below(files[f][b].stmts.len() as u64 + 1) as usize;
                let kind = if r.chance(1, 2) { Kind::FillLocal(l) } else { Kind::Instr(["LD R1, {}", "LEA R0, {}", "BRnz {}", "JSR {}", "ST R7, {}"][r.below(5) as usize].to_string(), Some(l)) };
                files[f][b].stmts.insert(at, Stmt { labels: vec![], kind });
            }
        }
        for (name, uses) in exts[f].clone() {
            for _ in 0..uses {
                let b = r.below(files[f].len() as u64) as usize;
                let at = r.below(files[f][b].stmts.len() as u64 + 1) as usize;
                files[f][b].stmts.insert(at, Stmt { labels: vec![], kind: Kind::FillExt(name.clone()) });
            }
        }
    }
    // 4. global layout: all blocks on a line, random gaps; overlaps only between different files
    let mut order: Vec<(usize, usize)> = vec![];
    for f in 0..n { for b in 0..files[f].len() { order.push((f, b)); } }
    for k in (1..order.len()).rev() { let j = r.below(k as u64 + 1) as usize; order.swap(k, j); }
    let total: u32 = order.iter().map(|&(f, b)| files[f][b].len() as u32 + 12).sum();
    let base: u32 = match r.below(7) { 0 => 0x0200, 1 => 0xFE00 - total, 2 => 0xFE00 - files.iter().flatten().map(|b| b.len() as u32).sum::<u32>(), 3 => 0, _ => 0x3000 + r.below(0x100) as u32 * 16 };
    let tight = r.below(6) == 2 || base + total > 0xFE00;
    let mut cur = base;
    let mut placed: Vec<(usize, u32, u32)> = vec![]; // (file, start, end)
    for (k, &(f, b)) in order.iter().enumerate() {
        let len = files[f][b].len() as u32;
        let mut start = cur + if tight || (base == 0 && k == 0) { 0 } else { match r.below(6) { 0..=2 => 0, 3 => 1, 4 => 3, _ => 10 } };
        if k > 0 && !tight && r.chance(o.overlap_pct, 100) {
            let &(pf, ps, pe) = placed.last().unwrap();
            if pf != f {
                start = match r.below(4) { 0 => ps, 1 => pe.saturating_sub(1).max(ps), 2 => ps + (pe - ps) / 2, _ => ps.saturating_sub(len.saturating_sub(1)) };
            }
        }
        // never overlap a block of the same file (the file must assemble)
        while placed.iter().any(|&(pf, ps, pe)| pf == f && start < pe && ps < start + len.max(1)) { start += 1; }
        if start + len > 0xFE00 { start = cur; }
        files[f][b].orig = start as u16;
        placed.push((f, start, start + len));
        cur = cur.max(start + len);
    }
    // a definition at address x0000 (the placeholder address of externals) that another file declares external:
    // when the layout starts at x0000, move such a label of the first block's file onto its first word
    if base == 0 && !order.is_empty() {
        let (f0, b0) = order[0];
        let wanted: Vec<String> = defs[f0].iter().filter(|d| (0..n).any(|g| g != f0 && exts[g].iter().any(|(e, _)| e.eq_ignore_ascii_case(d)))).cloned().collect();
        if !wanted.is_empty() && !files[f0][b0].stmts.is_empty() && files[f0][b0].orig == 0 {
            let name = r.pick(&wanted).clone();
            for blk in files[f0].iter_mut() {
                blk.end_labels.retain(|l| l != &name);
                for s in blk.stmts.iter_mut() { s.labels.retain(|l| l != &name); }
            }
            files[f0][b0].stmts[0].labels.push(name);
        }
    }
    // a label shared at one address: end label of a block = first label of the touching block of another file
    for i in 0..placed.len() {
        for j in 0..placed.len() {
            let (fi, _, ei) = placed[i];
            let (fj, sj, _) = placed[j];
            if fi != fj && ei == sj && r.chance(1, 3) {
                let name = "SHARED".to_string();
                let (bf, bb) = order[i];
                let (cf, cb) = order[j];
                let has = |fs: &Vec<Blk>| fs.iter().any(|b| b.end_labels.contains(&name) || b.stmts.iter().any(|s| s.labels.contains(&name)));
                if !has(&files[bf]) && !has(&files[cf]) && !files[cf][cb].stmts.is_empty()
                    && !matches!(files[cf][cb].stmts[0].kind, Kind::External(_)) {
                    files[bf][bb].end_labels.push(name.clone());
                    files[cf][cb].stmts[0].labels.push(name);
                }
            }
        }
    }
    // 5. file texts: blocks in random order, `.external` declarations before / between / inside / after
    let mut out = vec![];
    for f in 0..n {
        let mut blks = files[f].clone();
        for k in (1..blks.len()).rev() { let j = r.below(k as u64 + 1) as usize; blks.swap(k, j); }
        let mut parts: Vec<Part> = blks.into_iter().map(Part::Block).collect();
        for (name, _) in &exts[f] {
            let ndecl = if r.chance(1, 10) { 2 } else { 1 };
            for _ in 0..ndecl {
                let nblocks = parts.iter().filter(|p| matches!(p, Part::Block(_))).count();
                if nblocks > 0 && r.chance(1, 3) {
                    // inside a block
                    let which = r.below(nblocks as u64) as usize;
                    let mut seen = 0;
                    for p in parts.iter_mut() {
                        if let Part::Block(b) = p {
                            if seen == which {
                                let at = r.below(b.stmts.len() as u64 + 1) as usize;
                                b.stmts.insert(at, Stmt { labels: vec![], kind: Kind::External(name.clone()) });
                                break;
                            }
                            seen += 1;
                        }
                    }
                } else {
                    let at = match r.below(3) { 0 => 0, 1 => parts.len(), _ => r.below(parts.len() as u64 + 1) as usize };
                    parts.insert(at, Part::Ext(name.clone()));
                }
            }
        }
        out.push(FileSpec { parts, debug: !r.chance(o.nodebug_pct, 100), style: r.next() });
    }
    out
}

// ------------------------------------------------------------------------------------------
// objects and their views
// ------------------------------------------------------------------------------------------
pub fn assemble_text(src: &str, debug: bool) -> Option<Result<ObjectFile, String>> {
    catch(|| {
        let ast = parse_ast(src).map_err(|e| format!("parse: {e:?}"))?;
        if debug { assemble_debug(ast, src) } else { assemble(ast) }.map_err(|e| format!("asm: {:?}", e.kind))
    })
}

/// What a property may observe of an object, recomputed through the public API
/// (`addr_iter`, `label_iter`) and the relocation hook.
#[derive(Clone, Debug, PartialEq, Eq, Default)]
pub struct View {
    pub image: BTreeMap<u16, Option<u16>>,
    pub labels: BTreeMap<String, (u16, bool)>,
    pub pending: BTreeMap<u16, String>,
}
pub fn view(o: &ObjectFile) -> View {
    let mut v = View::default();
    for (a, w) in o.addr_iter() { v.image.insert(a, w); }
    if let Some(st) = o.symbol_table() {
        for (n, a, e) in st.label_iter() { v.labels.insert(n.to_string(), (a, e)); }
        for (a, n) in st.verif_relocs() { v.pending.insert(a, n); }
    }
    v
}
/// The specification of linking a SET of objects (order-free), written directly on views:
/// Err when two images share an address or a name is defined at two addresses.
pub fn expected_union(leaves: &[&View]) -> Result<View, &'static str> {
    let mut r = View::default();
    for v in leaves {
        for (a, w) in &v.image {
            if r.image.insert(*a, *w).is_some() { return Err("images overlap"); }
        }
    }
    for v in leaves {
        for (n, (a, e)) in &v.labels {
            match r.labels.get(n).copied() {
                None => { r.labels.insert(n.clone(), (*a, *e)); }
                Some((_, true)) => { if !*e { r.labels.insert(n.clone(), (*a, false)); } }
                Some((a0, false)) => { if !*e && a0 != *a { return Err("label defined twice"); } }
            }
        }
    }
    for v in leaves {
        for (a, n) in &v.pending {
            match r.labels.get(n) {
                Some((t, false)) => { r.image.insert(*a, Some(*t)); }
                _ => { r.pending.insert(*a, n.clone()); }
            }
        }
    }
    Ok(r)
}

pub fn kind_tag(k: AsmErrKind) -> i128 {
    match k { AsmErrKind::OverlappingBlocks => 0, AsmErrKind::OverlappingLabels => 1, _ => 99 }
}
/// canonical observation of a link result: object tree, or error kind + number of spans
pub fn t_link(r: &Option<Result<ObjectFile, AsmErr>>) -> Tree {
    match r {
        None => panic(),
        Some(Ok(o)) => ok(vec![t_obj(o)]),
        Some(Err(e)) => err(vec![I(kind_tag(e.kind)), iu(e.span.iter().count())]),
    }
}

pub fn load(o: &ObjectFile) -> Option<(Result<(), SimErr>, Simulator)> {
    catch(|| {
        let mut sim = Simulator::new(Default::default());
        let r = sim.load_obj_file(o);
        (r, sim)
    })
}
pub fn t_load(r: &Option<Result<(), SimErr>>) -> Tree {
    match r {
        None => panic(),
        Some(Ok(())) => ok(vec![]),
        Some(Err(SimErr::UnresolvedExternal(_))) => err(vec![I(0)]),
        Some(Err(_)) => err(vec![I(99)]),
    }
}

// ------------------------------------------------------------------------------------------
// link expressions: every order and bracketing
// ------------------------------------------------------------------------------------------
#[derive(Clone, Debug)]
pub enum Expr { Leaf(usize), Node(Box<Expr>, Box<Expr>) }
impl Expr {
    pub fn show(&self) -> String {
        match self { Expr::Leaf(k) => k.to_string(), Expr::Node(a, b) => format!("({} {})", a.show(), b.show()) }
    }
}
/// all bracketings of the sequence `xs` (in this order)
pub fn bracketings(xs: &[usize]) -> Vec<Expr> {
    if xs.len() == 1 { return vec![Expr::Leaf(xs[0])]; }
    let mut v = vec![];
    for k in 1..xs.len() {
        for a in bracketings(&xs[..k]) {
            for b in bracketings(&xs[k..]) {
                v.push(Expr::Node(Box::new(a.clone()), Box::new(b)));
            }
        }
    }
    v
}
pub fn permutations(n: usize) -> Vec<Vec<usize>> {
    fn go(cur: &mut Vec<usize>, used: &mut Vec<bool>, n: usize, out: &mut Vec<Vec<usize>>) {
        if cur.len() == n { out.push(cur.clone()); return; }
        for k in 0..n { if !used[k] { used[k] = true; cur.push(k); go(cur, used, n, out); cur.pop(); used[k] = false; } }
    }
    let mut out = vec![];
    go(&mut vec![], &mut vec![false; n], n, &mut out);
    out
}
/// every order and bracketing of n files: 2, 12, 120 expressions for n = 2, 3, 4
pub fn all_exprs(n: usize) -> Vec<Expr> {
    permutations(n).iter().flat_map(|p| bracketings(p)).collect()
}

/// Outcome of evaluating a link expression.
#[derive(Clone)]
pub enum Out { Obj(ObjectFile), Err(AsmErrKind, usize), Panic }

pub struct Evaluator<'a> {
    pub ctx: &'a Ctx,
    pub leaves: Vec<ObjectFile>,
    pub memo: HashMap<String, Out>,
    pub seen_cases: HashSet<String>,
    /// every failing link: (expression, error) — for the C26 area
    pub errors: Vec<(String, AsmErr)>,
    pub nlinks: i64,
}
impl<'a> Evaluator<'a> {
    pub fn new(ctx: &'a Ctx, leaves: Vec<ObjectFile>) -> Self {
        Evaluator { ctx, leaves, memo: HashMap::new(), seen_cases: HashSet::new(), errors: vec![], nlinks: 0 }
    }
    pub fn eval(&mut self, e: &Expr) -> Out {
        let key = e.show();
        if let Some(o) = self.memo.get(&key) { return o.clone(); }
        let out = match e {
            Expr::Leaf(k) => Out::Obj(self.leaves[*k].clone()),
            Expr::Node(a, b) => {
                let oa = self.eval(a);
                let ob = self.eval(b);
                match (oa, ob) {
                    (Out::Obj(x), Out::Obj(y)) => {
                        let input = L(vec![t_obj(&x), t_obj(&y)]);
                        let r = catch(|| ObjectFile::link(x, y));
                        self.nlinks += 1;
                        let s = input.to_string();
                        if self.seen_cases.insert(s) { self.ctx.case("link.link", &input, &t_link(&r)); }
                        match r {
                            None => Out::Panic,
                            Some(Ok(o)) => Out::Obj(o),
                            Some(Err(e)) => { let k = e.kind; let n = e.span.iter().count(); self.errors.push((key.clone(), e)); Out::Err(k, n) }
                        }
                    }
                    (Out::Panic, _) | (_, Out::Panic) => Out::Panic,
                    (Out::Err(k, n), _) | (_, Out::Err(k, n)) => Out::Err(k, n),
                }
            }
        };
        self.memo.insert(key, out.clone());
        out
    }
}

pub fn show_set(texts: &[String], debug: &[bool]) -> String {
    texts.iter().zip(debug).enumerate().map(|(k, (t, d))| format!("file{k}(debug={d}): {t:?}")).collect::<Vec<_>>().join(" | ")
}
/// replay input of a set: the texts and debug flags as a tree
pub fn set_tree(texts: &[String], debug: &[bool]) -> Tree {
    list(texts.iter().zip(debug), |(t, d)| L(vec![chars(t), b(*d)]))
}

/// Assemble a generated set; None if a file does not assemble (a generator fault, counted).
pub fn assemble_set(ctx: &Ctx, specs: &[FileSpec]) -> Option<(Vec<String>, Vec<ObjectFile>)> {
    let texts: Vec<String> = specs.iter().map(|s| s.render()).collect();
    let mut objs = vec![];
    for (s, t) in specs.iter().zip(&texts) {
        match assemble_text(t, s.debug) {
            Some(Ok(o)) => objs.push(o),
            other => {
                ctx.stat("gen.file_not_assembled", 1);
                ctx.sample(format!("NOT ASSEMBLED {other:?}: {t:?}", other = other.map(|r| r.err())));
                return None;
            }
        }
    }
    Some((texts, objs))
}

/// the generator's own layout must agree with the assembler (otherwise the oracles below are void)
pub fn check_facts(ctx: &Ctx, prop: &str, spec: &FileSpec, text: &str, obj_dbg: &ObjectFile) -> bool {
    let f = spec.facts();
    let v = view(obj_dbg);
    let mut ok = true;
    for (n, a) in &f.defs {
        if v.labels.get(n) != Some(&(*a, false)) { ok = false; }
    }
    let img: BTreeSet<u16> = v.image.keys().copied().collect();
    let want: BTreeSet<u16> = f.blocks.iter().flat_map(|&(s, l)| (0..l).map(move |k| s.wrapping_add(k))).collect();
    if img != want { ok = false; }
    if !ok {
        ctx.fail(prop, "generator_layout", format!("generator facts {f:?} disagree with the assembled object {v:?} for {text:?}"), format!("link.set\t{}", set_tree(&[text.to_string()], &[true])));
    }
    ok
}

// ------------------------------------------------------------------------------------------
// C20
// ------------------------------------------------------------------------------------------
pub fn run_set_c20(ctx: &Ctx, texts: &[String], debug: &[bool], objs: Vec<ObjectFile>) {
    let n = objs.len();
    let replay = format!("link.set\t{}", set_tree(texts, debug));
    let views: Vec<View> = objs.iter().map(view).collect();
    for o in &objs {
        ctx.case("link.obj_inv", &t_obj(o), &b(true));
        ctx.case("link.load_check", &t_obj(o), &t_load(&load(o).map(|x| x.0)));
    }
    let want = expected_union(&views.iter().collect::<Vec<_>>());
    ctx.stat(match &want { Ok(_) => "c20.sets_linkable", Err("images overlap") => "c20.sets_block_overlap", Err(_) => "c20.sets_label_conflict" }, 1);
    if let Ok(w) = &want {
        ctx.stat("c20.resolved_sites", views.iter().map(|v| v.pending.len() as i64).sum::<i64>() - w.pending.len() as i64);
        ctx.stat("c20.pending_sites_left", w.pending.len() as i64);
    }
    let mut ev = Evaluator::new(ctx, objs);
    let mut first: Option<(String, View)> = None;
    let mut kinds: BTreeSet<i128> = BTreeSet::new();
    let mut inv_seen: HashSet<String> = HashSet::new();
    for e in all_exprs(n) {
        let out = ev.eval(&e);
        let name = e.show();
        match (&out, &want) {
            (Out::Panic, _) => ctx.fail("C20", "link_panics", format!("link order {name} panics on {}", show_set(texts, debug)), replay.clone()),
            (Out::Obj(o), Err(why)) => ctx.fail("C20", "links_conflicting_set", format!("link order {name} succeeds although {why}: {}", show_set(texts, debug)), replay.clone()),
            (Out::Err(k, _), Ok(_)) => ctx.fail("C20", "rejects_linkable_set", format!("link order {name} fails with {k:?} although the blocks are disjoint and no label is defined twice: {}", show_set(texts, debug)), replay.clone()),
            (Out::Err(k, _), Err(_)) => { kinds.insert(kind_tag(*k)); }
            (Out::Obj(o), Ok(w)) => {
                let v = view(o);
                if v.image != w.image {
                    let d: Vec<_> = w.image.iter().filter(|(a, x)| v.image.get(a) != Some(x)).take(3).collect();
                    ctx.fail("C20", "image_not_union", format!("link order {name}: memory image differs from the union with resolved externals at {d:x?} (got {:x?}): {}",
                        d.iter().map(|(a, _)| v.image.get(a)).collect::<Vec<_>>(), show_set(texts, debug)), replay.clone());
                }
                if v.labels != w.labels {
                    ctx.fail("C20", "labels_not_union", format!("link order {name}: labels {:?}, expected {:?}: {}", v.labels, w.labels, show_set(texts, debug)), replay.clone());
                }
                if v.pending != w.pending {
                    ctx.fail("C20", "pending_relocations", format!("link order {name}: pending relocations {:?}, expected {:?}: {}", v.pending, w.pending, show_set(texts, debug)), replay.clone());
                }
                match &first {
                    None => first = Some((name.clone(), v)),
                    Some((n0, v0)) => if *v0 != v {
                        ctx.fail("C20", "order_dependent", format!("link orders {n0} and {name} give different image/labels/relocations: {}", show_set(texts, debug)), replay.clone());
                    }
                }
                let t = t_obj(o);
                if inv_seen.insert(t.to_string()) { ctx.case("link.obj_inv", &t, &b(true)); }
            }
        }
    }
    // observations on one full result
    if let Some(Out::Obj(o)) = all_exprs(n).first().map(|e| ev.eval(e)) {
        ctx.case("link.addr_iter", &t_obj(&o), &list(o.addr_iter(), |(a, w)| L(vec![i(a), opt(w, |x| i(x))])));
        ctx.case("link.load_check", &t_obj(&o), &t_load(&load(&o).map(|x| x.0)));
        if let Some(st) = o.symbol_table() {
            for (nm, _, _) in st.label_iter().take(4) {
                for q in [nm.to_string(), nm.to_lowercase()] {
                    ctx.case("link.lookup_label", &L(vec![t_obj(&o), chars(&q)]), &opt(st.lookup_label(&q), |a| i(a)));
                }
            }
        }
    }
    ctx.stat("c20.links", ev.nlinks);
    ctx.stat("c20.sets", 1);
    ctx.stat(&format!("c20.sets_of_{n}"), 1);
    if kinds.len() > 1 { ctx.stat("c20.sets_error_kind_depends_on_order", 1); }
}

pub fn parse_set(replay: &str) -> Option<(Vec<String>, Vec<bool>)> {
    let t = parse(replay.split('\t').nth(1)?)?;
    let mut texts = vec![];
    let mut debug = vec![];
    for f in t.as_l()? {
        let f = f.as_l()?;
        texts.push(f[0].to_string_lossy_chars()?);
        debug.push(f[1].as_i()? != 0);
    }
    Some((texts, debug))
}
pub fn assemble_replay(texts: &[String], debug: &[bool]) -> Option<Vec<ObjectFile>> {
    texts.iter().zip(debug).map(|(t, d)| assemble_text(t, *d).and_then(|r| r.ok())).collect()
}

pub fn run(ctx: &Ctx, replay: Option<&str>) {
    // a replay input that carries a set re-runs just that set; otherwise (the check passes the
    // operation name only) the whole area is re-run from the recorded seed
    if let Some(rp) = replay {
        if let Some((texts, debug)) = parse_set(rp) {
            if let Some(objs) = assemble_replay(&texts, &debug) { run_set_c20(ctx, &texts, &debug, objs); }
            return;
        }
    }
    let mut r = Rng::new(ctx.seed).fork(20);
    let plan: [(usize, u64); 3] = [(2, ctx.n(260, 2500)), (3, ctx.n(150, 1500)), (4, ctx.n(45, 450))];
    for (nfiles, count) in plan {
        for _ in 0..count {
            let o = GenOpts { nfiles, overlap_pct: [0, 10, 25][r.below(3) as usize], conflict_pct: [0, 8, 20][r.below(3) as usize], nodebug_pct: [0, 0, 30][r.below(3) as usize] };
            let specs = gen_set(&mut r, &o);
            let Some((texts, objs)) = assemble_set(ctx, &specs) else { continue };
            let debug: Vec<bool> = specs.iter().map(|s| s.debug).collect();
            // the generator's layout facts against a debug assembly of every file
            let mut facts_ok = true;
            for (s, t) in specs.iter().zip(&texts) {
                if let Some(Ok(od)) = assemble_text(t, true) { facts_ok &= check_facts(ctx, "C20", s, t, &od); }
            }
            if !facts_ok { continue; }
            run_set_c20(ctx, &texts, &debug, objs);
        }
    }
}
