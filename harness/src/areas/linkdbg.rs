//! C22 — linked debug info still points at the right source text: pairs and triples of files with
//! debug symbols, linked in every order (and bracketing); per address the source line reported by
//! the linked object against the originating file, per label the text under its reported span.
use super::link::*;
use crate::ctx::Ctx;
use crate::objwire::t_obj;
use crate::rng::Rng;
use crate::tree::*;
use lc3_ensemble::asm::ObjectFile;
use std::collections::{BTreeSet, HashSet};

fn line_text(o: &ObjectFile, addr: u16) -> Option<(usize, Option<String>)> {
    let st = o.symbol_table()?;
    let ln = st.rev_lookup_line(addr)?;
    Some((ln, st.source_info().and_then(|s| s.read_line(ln)).map(|s| s.to_string())))
}
fn runs_strict(o: &ObjectFile) -> bool {
    let Some(st) = o.symbol_table() else { return true };
    let Some(bl) = st.verif_line_blocks() else { return true };
    let mut seen = BTreeSet::new();
    bl.iter().flat_map(|(_, ws)| ws.iter()).all(|a| seen.insert(*a))
}

pub fn run_set(ctx: &Ctx, texts: &[String], objs: Vec<ObjectFile>) {
    let n = objs.len();
    let dbg = vec![true; n];
    let replay = format!("linkdbg.set\t{}", set_tree(texts, &dbg));
    let views: Vec<View> = objs.iter().map(view).collect();
    for o in &objs {
        ctx.case("link.obj_inv", &t_obj(o), &b(true));
        ctx.case("link.label_spans_ok", &t_obj(o), &b(true));
    }
    let leaves = objs.clone();
    let mut ev = Evaluator::new(ctx, objs);
    let mut seen: HashSet<String> = HashSet::new();
    let mut nres = 0;
    for e in all_exprs(n) {
        let Out::Obj(r) = ev.eval(&e) else { continue };
        let name = e.show();
        let tr = t_obj(&r);
        if !seen.insert(tr.to_string()) { continue; }
        nres += 1;
        ctx.case("link.obj_inv", &tr, &b(true));
        ctx.case("link.label_spans_ok", &tr, &b(true));
        let Some(st) = r.symbol_table() else { continue };
        let Some(src) = st.source_info().map(|s| s.source().to_string()) else {
            ctx.fail("C22", "debug_info_lost", format!("link order {name}: the linked object has no source although every file has debug symbols: {}", show_set(texts, &dbg)), replay.clone());
            continue
        };
        let strict = runs_strict(&r);
        // every address of the image: the line text must be the one of the originating file
        let mut k = 0usize;
        for (addr, _) in r.addr_iter() {
            let Some(owner) = (0..n).find(|&f| views[f].image.contains_key(&addr)) else { continue };
            let got = line_text(&r, addr);
            let want = line_text(&leaves[owner], addr);
            if got.as_ref().map(|x| &x.1) != want.as_ref().map(|x| &x.1) {
                ctx.fail("C22", "line_text_differs", format!("link order {name}: address x{addr:04X} (from file{owner}) reports line {got:?}, the originating file reports {want:?}: {}", show_set(texts, &dbg)), replay.clone());
            }
            ctx.stat(if got.is_some() { "c22.addresses_with_line" } else { "c22.addresses_without_line" }, 1);
            if strict && (k % 3 == 0 || got.is_none()) {
                ctx.case("link.line_text", &L(vec![tr.clone(), i(addr)]),
                         &opt(got, |(ln, t)| L(vec![iu(ln), opt(t, |t| chars(&t))])));
            }
            k += 1;
        }
        if !strict { ctx.stat("c22.results_with_repeated_line_addresses", 1); }
        // every label: the text under its reported span spells the label
        for (nm, _, _) in st.label_iter() {
            let sp = crate::ctx::catch(|| st.get_label_source(nm));
            ctx.case("link.label_source", &L(vec![tr.clone(), chars(nm)]), &match &sp {
                None => panic(),
                Some(s) => ok(vec![opt(s.clone(), |r| L(vec![iu(r.start), iu(r.end)]))]),
            });
            let text = sp.clone().flatten().and_then(|r| src.get(r));
            if !text.is_some_and(|t| t.eq_ignore_ascii_case(nm)) {
                ctx.fail("C22", "label_span_text", format!("link order {name}: label {nm} has source span {sp:?} whose text in the combined source is {text:?}: {}", show_set(texts, &dbg)), replay.clone());
            }
            ctx.stat("c22.labels_checked", 1);
        }
    }
    ctx.stat("c22.distinct_linked_results", nres);
    ctx.stat("c22.sets", 1);
    ctx.stat("c22.links", ev.nlinks);
}

pub fn run(ctx: &Ctx, replay: Option<&str>) {
    // a replay input that carries a set re-runs just that set; otherwise (the check passes the
    // operation name only) the whole area is re-run from the recorded seed
    if let Some(rp) = replay {
        if let Some((texts, debug)) = parse_set(rp) {
            if let Some(objs) = assemble_replay(&texts, &debug) { run_set(ctx, &texts, objs); }
            return;
        }
    }
    let mut r = Rng::new(ctx.seed).fork(22);
    for round in 0..ctx.n(330, 3600) {
        let o = GenOpts { nfiles: 2 + (round % 3 == 2) as usize, overlap_pct: [0, 0, 8][r.below(3) as usize], conflict_pct: [0, 0, 8][r.below(3) as usize], nodebug_pct: 0 };
        let specs = gen_set(&mut r, &o);
        let Some((texts, objs)) = assemble_set(ctx, &specs) else { continue };
        run_set(ctx, &texts, objs);
    }
}
