//! C26 (linker half) — every error returned by ObjectFile::link carries a span list whose first
//! span and all spans can be queried without panicking.  Failing links of generated sets with
//! many block overlaps and label conflicts, every order and bracketing.
use super::link::*;
use crate::ctx::{catch, Ctx};
use crate::rng::Rng;
use lc3_ensemble::asm::ObjectFile;

pub fn run_set(ctx: &Ctx, texts: &[String], debug: &[bool], objs: Vec<ObjectFile>) {
    let n = objs.len();
    let replay = format!("linkerr.set\t{}", set_tree(texts, debug));
    let mut ev = Evaluator::new(ctx, objs);
    for e in all_exprs(n) { ev.eval(&e); }
    for (name, e) in &ev.errors {
        ctx.stat(&format!("c26.link_errors_{:?}", e.kind), 1);
        let first = catch(|| e.span.first());
        let all = catch(|| e.span.iter().cloned().collect::<Vec<_>>());
        let via_trait = catch(|| lc3_ensemble::err::Error::span(e).map(|s| (s.first(), s.iter().count())));
        let shown = || format!("link order {name} fails with {:?}: {}", e.kind, show_set(texts, debug));
        if first.is_none() || via_trait.is_none() {
            ctx.fail("C26", "link_error_first_span_panics", format!("ErrSpan::first() panics on the error's span list {:?}; {}", e.span, shown()), replay.clone());
        }
        match &all {
            None => ctx.fail("C26", "link_error_span_iter_panics", format!("iterating the error's spans panics; {}", shown()), replay.clone()),
            Some(v) if v.is_empty() => ctx.fail("C26", "link_error_no_span", format!("the error carries an empty span list; {}", shown()), replay.clone()),
            Some(v) => {
                if let Some(f) = &first { if *f != v[0] { ctx.fail("C26", "link_error_first_span_differs", format!("first() = {f:?} but the spans are {v:?}; {}", shown()), replay.clone()); } }
                if v.iter().any(|s| s.start > s.end) { ctx.fail("C26", "link_error_span_reversed", format!("spans {v:?}; {}", shown()), replay.clone()); }
            }
        }
    }
    ctx.stat("c26.sets", 1);
    ctx.stat("c26.links", ev.nlinks);
}

pub fn run(ctx: &Ctx, replay: Option<&str>) {
    // a replay input that carries a set re-runs just that set; otherwise (the check passes the
    // operation name only) the whole area is re-run from the recorded seed
    if let Some(rp) = replay {
        if let Some((texts, debug)) = parse_set(rp) {
            if let Some(objs) = assemble_replay(&texts, &debug) { run_set(ctx, &texts, &debug, objs); }
            return;
        }
    }
    let mut r = Rng::new(ctx.seed).fork(26);
    for round in 0..ctx.n(240, 2500) {
        let o = GenOpts { nfiles: 2 + (round % 3) as usize, overlap_pct: [15, 30, 0][r.below(3) as usize], conflict_pct: [10, 30, 40][r.below(3) as usize], nodebug_pct: [0, 25][r.below(2) as usize] };
        let specs = gen_set(&mut r, &o);
        let Some((texts, objs)) = assemble_set(ctx, &specs) else { continue };
        let debug: Vec<bool> = specs.iter().map(|s| s.debug).collect();
        run_set(ctx, &texts, &debug, objs);
    }
}
