//! C21 — external references are never silently left unresolved: programs with `.external`
//! declared before / between / after the uses, assembled with and without debug symbols, loaded
//! directly and after linking with every other file of the set (both debug modes, both orders).
use super::link::*;
use crate::ctx::{catch, Ctx};
use crate::objwire::t_obj;
use crate::rng::Rng;
use crate::tree::*;
use lc3_ensemble::asm::ObjectFile;
use lc3_ensemble::sim::SimErr;
use std::collections::{BTreeMap, HashSet};

fn sites_tree(sites: &[(u16, String)]) -> Tree { list(sites.iter(), |(a, n)| L(vec![i(*a), chars(n)])) }

/// direct check of one (possibly linked) object against what the generator knows:
/// `sites` = every `.fill` of a declared-and-undefined external of the files linked into it,
/// `defs` = label -> address over the files linked into it (by construction of the texts),
/// `visible` = the labels whose defining file carries a symbol table.
fn check_loaded(ctx: &Ctx, what: &str, o: &ObjectFile, sites: &[(u16, String)], defs: &BTreeMap<String, u16>, visible: &HashSet<String>, shown: &str, replay: &str) {
    let v = view(o);
    for (addr, name) in sites {
        if let (Some(t), true) = (defs.get(name), visible.contains(name)) {
            if v.image.get(addr) != Some(&Some(*t)) {
                ctx.fail("C21", "site_not_patched", format!("{what}: word at x{addr:04X} (.fill {name}) is {:x?}, but {name} is defined at x{t:04X} by a linked file: {shown}", v.image.get(addr)), replay.to_string());
            }
        }
    }
    match load(o) {
        None => ctx.fail("C21", "load_panics", format!("{what}: load_obj_file panics: {shown}"), replay.to_string()),
        Some((Ok(()), sim)) => {
            for (addr, name) in sites {
                let got = sim.mem[*addr].get();
                match defs.get(name) {
                    Some(t) if got == *t => {}
                    Some(t) => ctx.fail("C21", "loaded_with_placeholder", format!("{what}: loads without error but the word at x{addr:04X} (.fill {name}) is x{got:04X}, not the address x{t:04X} of {name}: {shown}"), replay.to_string()),
                    None => ctx.fail("C21", "load_silent", format!("{what}: loads without error although .fill {name} at x{addr:04X} refers to an external nobody defines: {shown}"), replay.to_string()),
                }
            }
        }
        Some((Err(SimErr::UnresolvedExternal(n)), _)) => {
            if !v.labels.get(&n).is_some_and(|(_, e)| *e) {
                ctx.fail("C21", "wrong_external_reported", format!("{what}: UnresolvedExternal({n}) but {n} is not an external label of the object: {shown}"), replay.to_string());
            }
        }
        Some((Err(e), _)) => ctx.fail("C21", "load_other_error", format!("{what}: load_obj_file fails with {e:?}: {shown}"), replay.to_string()),
    }
}

pub fn run_set(ctx: &Ctx, texts: &[String], facts: &[FileFacts]) {
    let n = texts.len();
    let dbg_all = vec![true; n];
    let replay = format!("linkext.set\t{}", set_tree(texts, &dbg_all));
    // both debug modes of every file
    let mut objs: Vec<[ObjectFile; 2]> = vec![];
    for t in texts {
        match (assemble_text(t, false), assemble_text(t, true)) {
            (Some(Ok(a)), Some(Ok(b))) => objs.push([a, b]),
            _ => { ctx.stat("gen.file_not_assembled", 1); return; }
        }
    }
    let mut seen: HashSet<String> = HashSet::new();
    for k in 0..n {
        let f = &facts[k];
        for d in 0..2 {
            let o = &objs[k][d];
            let shown = format!("file (debug={}) {:?}", d == 1, texts[k]);
            ctx.case("link.ext_sites", &L(vec![t_obj(o), sites_tree(&f.sites)]), &b(true));
            ctx.case("link.load_check", &t_obj(o), &t_load(&load(o).map(|x| x.0)));
            ctx.case("link.obj_inv", &t_obj(o), &b(true));
            if f.sites.is_empty() { continue; }
            ctx.stat(if d == 1 { "c21.user_files_debug" } else { "c21.user_files_nodebug" }, 1);
            // what the assembler owes the linker
            match o.symbol_table() {
                None => ctx.fail("C21", "symtab_dropped", format!("object has no symbol table although it uses externals: {shown}"), replay.clone()),
                Some(st) => {
                    let rel = st.verif_relocs();
                    for (a, nm) in &f.sites {
                        if !rel.iter().any(|(ra, rn)| ra == a && rn == nm) {
                            ctx.fail("C21", "reloc_missing", format!("no relocation entry for .fill {nm} at x{a:04X}: {shown}"), replay.clone());
                        }
                    }
                }
            }
            // loading the file alone must fail with an unresolved-external error
            match load(o).map(|x| x.0) {
                Some(Err(SimErr::UnresolvedExternal(nm))) if f.externals.contains(&nm) => {}
                other => ctx.fail("C21", "load_silent", format!("load_obj_file = {other:?} for a file with .fill of undefined externals {:?}: {shown}", f.sites), replay.clone()),
            }
        }
        for p in &f.placement { ctx.stat(["c21.decl_before_uses", "c21.decl_between_uses", "c21.decl_after_uses"][*p as usize], 1); }
    }
    // pairs: user x other file, both modes each, both orders
    for u in 0..n {
        if facts[u].sites.is_empty() { continue; }
        for d in 0..n {
            if d == u { continue; }
            for du in 0..2 { for dd in 0..2 {
                for order in 0..2 {
                    let (x, y) = if order == 0 { (objs[u][du].clone(), objs[d][dd].clone()) } else { (objs[d][dd].clone(), objs[u][du].clone()) };
                    let input = L(vec![t_obj(&x), t_obj(&y)]);
                    let r = catch(|| ObjectFile::link(x, y));
                    if seen.insert(input.to_string()) { ctx.case("link.link", &input, &t_link(&r)); }
                    let Some(Ok(lo)) = r else { continue };
                    ctx.stat("c21.linked_pairs", 1);
                    let mut defs = BTreeMap::new();
                    let mut visible = HashSet::new();
                    for (k, m) in [(u, du), (d, dd)] {
                        for (nm, a) in &facts[k].defs {
                            defs.insert(nm.clone(), *a);
                            if objs[k][m].symbol_table().is_some() { visible.insert(nm.clone()); }
                        }
                    }
                    let mut sites = facts[u].sites.clone();
                    sites.extend(facts[d].sites.iter().cloned());
                    let resolvable = sites.iter().filter(|(_, nm)| defs.contains_key(nm) && visible.contains(nm)).count();
                    ctx.stat("c21.sites_resolvable", resolvable as i64);
                    ctx.stat("c21.sites_left_pending", (sites.len() - resolvable) as i64);
                    let shown = format!("user (debug={}) {:?} + (debug={}) {:?}, user {}", du == 1, texts[u], dd == 1, texts[d], if order == 0 { "first" } else { "second" });
                    check_loaded(ctx, "after linking", &lo, &sites, &defs, &visible, &shown, &replay);
                    ctx.case("link.load_check", &t_obj(&lo), &t_load(&load(&lo).map(|x| x.0)));
                }
            }}
        }
    }
    // the whole set in file order and reverse order (debug mode: file k in mode k mod 2)
    for rev in [false, true] {
        let mut idx: Vec<usize> = (0..n).collect();
        if rev { idx.reverse(); }
        let mut acc: Option<ObjectFile> = None;
        let mut failed = false;
        for &k in &idx {
            let o = objs[k][(k + 1) % 2].clone();
            acc = match acc { None => Some(o), Some(a) => match catch(|| ObjectFile::link(a, o)) { Some(Ok(r)) => Some(r), _ => { failed = true; None } } };
            if failed { break; }
        }
        if let (false, Some(lo)) = (failed, acc) {
            let mut defs = BTreeMap::new();
            let mut visible = HashSet::new();
            let mut sites = vec![];
            let mut consistent = true;
            for k in 0..n {
                for (nm, a) in &facts[k].defs {
                    if defs.insert(nm.clone(), *a).is_some_and(|old| old != *a) { consistent = false; }
                    if objs[k][(k + 1) % 2].symbol_table().is_some() { visible.insert(nm.clone()); }
                }
                sites.extend(facts[k].sites.iter().cloned());
            }
            // a label defined by a stripped file AND a visible one at different addresses is outside the property
            if consistent {
                ctx.stat("c21.linked_sets", 1);
                check_loaded(ctx, "after linking the whole set", &lo, &sites, &defs, &visible, &show_set(texts, &(0..n).map(|k| (k + 1) % 2 == 1).collect::<Vec<_>>()), &replay);
            }
        }
    }
}

pub fn run(ctx: &Ctx, replay: Option<&str>) {
    // a replay input that carries a set re-runs just that set; otherwise (the check passes the
    // operation name only) the whole area is re-run from the recorded seed
    if let Some(rp) = replay {
        if let Some((texts, _)) = parse_set(rp) {
            // facts are recomputed from a debug assembly of each text
            let facts: Vec<FileFacts> = texts.iter().map(|t| facts_from_text(t)).collect();
            run_set(ctx, &texts, &facts);
            return;
        }
    }
    let mut r = Rng::new(ctx.seed).fork(21);
    for round in 0..ctx.n(450, 5000) {
        let o = GenOpts { nfiles: 2 + (round % 2) as usize, overlap_pct: [0, 0, 10][r.below(3) as usize], conflict_pct: [0, 0, 10][r.below(3) as usize], nodebug_pct: 0 };
        let specs = gen_set(&mut r, &o);
        let texts: Vec<String> = specs.iter().map(|s| s.render()).collect();
        let facts: Vec<FileFacts> = specs.iter().map(|s| s.facts()).collect();
        let mut ok = true;
        for (s, t) in specs.iter().zip(&texts) {
            match assemble_text(t, true) {
                Some(Ok(od)) => ok &= check_facts(ctx, "C21", s, t, &od),
                _ => { ctx.stat("gen.file_not_assembled", 1); ok = false; }
            }
        }
        if !ok { continue; }
        ctx.stat("c21.sets", 1);
        run_set(ctx, &texts, &facts);
    }
}

/// Replay support: the facts of a text recovered from the statement list of the real parser
/// (label addresses from a debug assembly; sites = `.fill` of labels declared external and not
/// defined as a statement label).
pub fn facts_from_text(text: &str) -> FileFacts {
    use lc3_ensemble::ast::asm::{Directive, StmtKind};
    use lc3_ensemble::ast::PCOffset;
    let mut f = FileFacts::default();
    let Ok(ast) = lc3_ensemble::parse::parse_ast(text) else { return f };
    let mut lc: Option<u16> = None;
    let mut fills = vec![];
    for s in &ast {
        if let Some(a) = lc { for l in &s.labels { f.defs.insert(l.name.to_uppercase(), a); } }
        match &s.nucleus {
            StmtKind::Directive(Directive::Orig(a)) => lc = Some(a.get()),
            StmtKind::Directive(Directive::End) => lc = None,
            StmtKind::Directive(Directive::External(l)) => { f.externals.insert(l.name.to_uppercase()); }
            StmtKind::Directive(Directive::Fill(PCOffset::Label(l))) => { if let Some(a) = lc { fills.push((a, l.name.to_uppercase())); lc = Some(a.wrapping_add(1)); } }
            StmtKind::Directive(Directive::Fill(_)) => lc = lc.map(|a| a.wrapping_add(1)),
            StmtKind::Directive(Directive::Blkw(k)) => lc = lc.map(|a| a.wrapping_add(k.get())),
            StmtKind::Directive(Directive::Stringz(t)) => lc = lc.map(|a| a.wrapping_add(t.len() as u16 + 1)),
            StmtKind::Instr(_) => lc = lc.map(|a| a.wrapping_add(1)),
        }
    }
    let defs = f.defs.clone();
    f.externals.retain(|e| !defs.contains_key(e));
    f.sites = fills.into_iter().filter(|(_, nm)| f.externals.contains(nm)).collect();
    f
}
