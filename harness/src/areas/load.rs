//! Construction, loading and reset of the simulator (C29, C30, C31).
//!
//! Correspondence cases for the Coq model (coq/model/Load.v through coq/model/SimWire.v):
//!   `sim.new`   (flags fill (addr...))            -> words at the addresses + rest of the state
//!   `sim.load`  (state blocks has_external)       -> memory difference + rest | unresolved | panic
//!   `sim.reset` (state env fill (addr...))        -> words at the addresses + rest + ireg map
//!   `sim.run`   seeded machines described word by word, with the observed timer draws
//! Direct oracles on the implementation (independent of the model and of `copy_obj_block`):
//!   C29  the layout of `Simulator::new` scanned over all 65536 addresses against
//!        `_os_obj_file().addr_iter()`; the effect of `load_obj_file` recomputed pointwise from
//!        `ObjectFile::addr_iter()` over a full snapshot taken before the load
//!   C30  `reset` against an independent `Simulator::new(flags)`; identity of what is kept
//!   C31  two independent machines from the same seeds, compared after every step
use crate::areas::sim::{gen_setup, pick_addr, pick_instr, BOUNDARY};
use crate::ctx::{catch, par_for, Ctx};
use crate::rng::Rng;
use crate::simwire::*;
use crate::tree::*;
use lc3_ensemble::asm::encoding::{BinaryFormat, ObjFileFormat};
use lc3_ensemble::asm::{assemble, assemble_debug, ObjectFile};
use lc3_ensemble::parse::parse_ast;
use lc3_ensemble::sim::debug::Breakpoint;
use lc3_ensemble::sim::device::{BufferedDisplay, BufferedKeyboard, ExternalDevice, Interrupt, InterruptFromFn, TimerDevice};
use lc3_ensemble::sim::mem::MachineInitStrategy;
use lc3_ensemble::sim::{SimFlags, Simulator, _os_obj_file};
use std::collections::VecDeque;
use std::sync::atomic::{AtomicU64, Ordering::Relaxed};
use std::sync::{Arc, Mutex, RwLock};

// ------------------------------------------------------------------ snapshots

#[derive(Clone, PartialEq, Debug)]
pub struct Snap {
    pub mem: Vec<W>,
    pub regs: [W; 8],
    pub pc: u16,
    pub psr: u16,
    pub saved_sp: W,
    pub instrs: u64,
    pub frame_no: u64,
    pub frames_some: bool,
    pub prefetch: bool,
    pub mcr: bool,
    pub hit_bp: bool,
    pub hit_halt: bool,
    pub alloca: Vec<(u16, u16)>,
}
pub fn snap(sim: &Simulator) -> Snap {
    Snap {
        mem: (0..=u16::MAX).map(|a| sim.mem[a].verif_parts()).collect(),
        regs: std::array::from_fn(|r| sim.reg_file[reg(r as u8)].verif_parts()),
        pc: sim.pc,
        psr: sim.psr().get(),
        saved_sp: sim.verif_saved_sp().verif_parts(),
        instrs: sim.instructions_run,
        frame_no: sim.frame_stack.len() as u64,
        frames_some: sim.frame_stack.frames().is_some(),
        prefetch: sim.verif_prefetch(),
        mcr: sim.mcr().load(Relaxed),
        hit_bp: sim.hit_breakpoint(),
        hit_halt: sim.hit_halt(),
        alloca: sim.verif_alloca(),
    }
}
/// first difference between two snapshots outside memory (None = equal)
fn snap_rest_diff(a: &Snap, b: &Snap, with_alloca: bool) -> Option<String> {
    if a.regs != b.regs { return Some(format!("registers {:?} vs {:?}", a.regs, b.regs)); }
    if a.pc != b.pc { return Some(format!("pc {:#06x} vs {:#06x}", a.pc, b.pc)); }
    if a.psr != b.psr { return Some(format!("psr {:#06x} vs {:#06x}", a.psr, b.psr)); }
    if a.saved_sp != b.saved_sp { return Some(format!("saved sp {:?} vs {:?}", a.saved_sp, b.saved_sp)); }
    if a.instrs != b.instrs { return Some(format!("instructions_run {} vs {}", a.instrs, b.instrs)); }
    if a.frame_no != b.frame_no { return Some(format!("frame depth {} vs {}", a.frame_no, b.frame_no)); }
    if a.frames_some != b.frames_some { return Some(format!("frame recording {} vs {}", a.frames_some, b.frames_some)); }
    if a.prefetch != b.prefetch { return Some(format!("prefetch {} vs {}", a.prefetch, b.prefetch)); }
    if a.hit_bp != b.hit_bp || a.hit_halt != b.hit_halt { return Some(format!("pause status bp={} halt={} vs bp={} halt={}", a.hit_bp, a.hit_halt, b.hit_bp, b.hit_halt)); }
    if with_alloca && a.alloca != b.alloca { return Some(format!("allocated blocks {:?} vs {:?}", a.alloca, b.alloca)); }
    None
}
fn mem_first_diff(a: &[W], b: &[W]) -> Option<(u16, W, W)> {
    (0..=u16::MAX).find(|&x| a[x as usize] != b[x as usize]).map(|x| (x, a[x as usize], b[x as usize]))
}

// ------------------------------------------------------------------ wire helpers

fn t_flags(f: &SimFlags) -> Tree { L(vec![b(f.strict), b(f.use_real_traps), b(f.debug_frames), b(f.ignore_privilege)]) }
fn timer_range(t: &TimerDevice) -> (u32, u32) {
    use std::ops::{Bound, RangeBounds};
    let r = t.get_range();
    let lo = match r.start_bound() { Bound::Included(&s) => s, Bound::Excluded(&s) => s + 1, Bound::Unbounded => 0 };
    let hi = match r.end_bound() { Bound::Included(&s) => s, Bound::Excluded(&s) => s.saturating_sub(1), Bound::Unbounded => u32::MAX };
    (lo, hi)
}
fn known_mem(fill: u16) -> Vec<W> {
    let s = Simulator::new(SimFlags { machine_init: MachineInitStrategy::Known { value: fill }, ..Default::default() });
    (0..=u16::MAX).map(|a| s.mem[a].verif_parts()).collect()
}

/// The state tree (coq/model/SimWire.v: as_state) of the machine as it is NOW: memory as the
/// difference from `Simulator::new` with `Known { fill }`, everything else read back.
pub fn t_state_now(m: &mut Machine, fill: u16, srd: &[(u16, PList)]) -> Tree {
    let _ = m.sim.observer.take_mem_accesses().count(); // the observer is empty in the described state
    let base = known_mem(fill);
    let mut ov = vec![];
    for a in 0..=u16::MAX {
        let w = m.sim.mem[a].verif_parts();
        if w != base[a as usize] { ov.push(L(vec![i(a), i(w.0), i(w.1)])); }
    }
    let sim = &m.sim;
    let regs = list(0..8u8, |r| t_word(sim.reg_file[reg(r)]));
    let frames = opt(sim.frame_stack.frames(), |fs| list(fs.iter(), |f| L(vec![
        i(f.caller_addr), i(f.callee_addr),
        i(match f.frame_type { lc3_ensemble::sim::frame::FrameType::Subroutine => 0, lc3_ensemble::sim::frame::FrameType::Trap => 1, lc3_ensemble::sim::frame::FrameType::Interrupt => 2 }),
        opt(f.frame_ptr, t_word), list(f.arguments.iter(), |w| t_word(*w))])));
    let srd_t = list(srd.iter(), |(a, p)| L(vec![i(*a), match p {
        PList::CC(n) => L(vec![i(0), iu(*n)]),
        PList::PBR(rs) => L(vec![i(1), list(rs.iter(), |r| i(*r))]),
    }]));
    let alloca = list(sim.verif_alloca().iter(), |(a, l)| L(vec![i(*a), i(*l)]));
    let mut ir = sim.verif_ireg_map();
    ir.sort_by_key(|x| x.0);
    let ireg = list(ir.iter(), |(a, r)| L(vec![i(*a), i(ireg_code_of(*r))]));
    let head = vec![t_flags(&sim.flags), L(vec![i(fill), L(ov)]), regs, i(sim.pc), i(sim.psr().get()),
        t_word(sim.verif_saved_sp()), I(sim.frame_stack.len() as i128), frames, srd_t, alloca,
        I(sim.instructions_run as i128), b(sim.verif_prefetch()), L(vec![]), b(sim.mcr().load(Relaxed)), ireg];
    let devs = t_devs_full(m);
    let mut v = head; v.push(devs);
    L(v)
}
fn ireg_code_of(r: lc3_ensemble::sim::InternalRegister) -> u8 {
    use lc3_ensemble::sim::InternalRegister as R;
    match r { R::PC => 0, R::PSR => 1, R::MCR => 2, R::SavedSP => 3 }
}
/// devices with everything the model needs (scripts in full)
fn t_devs_full(m: &mut Machine) -> Tree {
    let mut v = vec![L(vec![i(0)])];
    match &m.kb {
        Some(bf) => {
            let q: Vec<u8> = bf.read().unwrap_or_else(|e| e.into_inner()).iter().copied().collect();
            let ie = m.sim.device_handler.io_read(0xFE00, false).map(|x| x & (1 << 14) != 0).unwrap_or(false);
            v.push(L(vec![i(1), bytes(&q), b(ie)]));
        }
        None => v.push(L(vec![i(0)])),
    }
    match &m.ds { Some(bf) => v.push(L(vec![i(2), bytes(&bf.read().unwrap_or_else(|e| e.into_inner()))])), None => v.push(L(vec![i(0)])) }
    for x in &m.extras {
        match x {
            ExtraH::Timer(t) => {
                let t = t.lock().unwrap();
                let (lo, hi) = timer_range(&t);
                v.push(L(vec![i(3), b(t.enabled), i(lo), i(hi), i(t.get_remaining()), i(t.vect), i(t.priority)]));
            }
            ExtraH::Script(q) => v.push(L(vec![i(4), list(q.lock().unwrap().iter(), |e| match e {
                None => L(vec![]), Some(Irq::Vec(v, p)) => L(vec![i(0), i(*v), i(*p)]), Some(Irq::Ext) => L(vec![i(1)]) })])),
        }
    }
    L(v)
}
/// coq/model/SimWire.v: t_state_rest
pub fn t_rest(m: &mut Machine) -> Tree {
    let sim = &m.sim;
    let head = vec![i(sim.pc), i(sim.psr().get()), t_word(sim.verif_saved_sp()), list(0..8u8, |r| t_word(sim.reg_file[reg(r)])),
        b(sim.verif_prefetch()), I(sim.instructions_run as i128), I(sim.frame_stack.len() as i128), b(sim.mcr().load(Relaxed)),
        list(sim.verif_alloca().iter(), |(a, l)| L(vec![i(*a), i(*l)]))];
    let devs = m.t_devs();
    let mut v = head; v.push(devs);
    L(v)
}
fn t_blocks(o: &ObjectFile) -> Tree {
    list(o.verif_blocks().iter(), |(a, ws)| L(vec![i(*a), list(ws.iter(), |w| opt(*w, |x| i(x)))]))
}
fn has_external(o: &ObjectFile) -> bool {
    o.symbol_table().map(|s| s.label_iter().any(|(_, _, e)| e)).unwrap_or(false)
}
fn bare_machine(sim: Simulator) -> Machine {
    let initial_mem = (0..=u16::MAX).map(|a| sim.mem[a]).collect();
    let alloca0 = sim.verif_alloca();
    Machine { sim, kb: None, ds: None, extras: vec![], initial_mem, alloca0 }
}
fn attach_timer(m: &mut Machine, enabled: bool, lo: u32, hi: u32, seed: u64, vect: u8, prio: u8) {
    let mut t = TimerDevice::new(Some(seed), lo..=hi, vect, prio);
    t.enabled = enabled;
    let h = Arc::new(Mutex::new(t));
    let _ = m.sim.device_handler.add_device(h.clone(), &[]);
    m.extras.push(ExtraH::Timer(h));
}
fn attach_script(m: &mut Machine, l: Vec<Option<Irq>>) {
    let q = Arc::new(Mutex::new(l.into_iter().collect::<VecDeque<_>>()));
    let q2 = q.clone();
    let dev = InterruptFromFn::new(move || match q2.lock().unwrap().pop_front() {
        Some(Some(Irq::Vec(v, p))) => Some(Interrupt::vectored(v, p)),
        Some(Some(Irq::Ext)) => Some(Interrupt::external(std::fmt::Error)),
        _ => None,
    });
    let _ = m.sim.device_handler.add_device(dev, &[]);
    m.extras.push(ExtraH::Script(q));
}
fn attach_kb(m: &mut Machine, q: Vec<u8>, ie: bool) {
    let buf = Arc::new(RwLock::new(q.into_iter().collect::<VecDeque<u8>>()));
    m.sim.device_handler.set_keyboard(BufferedKeyboard::new(buf.clone()));
    if ie { m.sim.device_handler.io_write(0xFE00, 1 << 14); }
    m.kb = Some(buf);
}
fn attach_ds(m: &mut Machine, bf: Vec<u8>) {
    let buf = Arc::new(RwLock::new(bf));
    m.sim.device_handler.set_display(BufferedDisplay::new(buf.clone()));
    m.ds = Some(buf);
}

// ------------------------------------------------------------------ the OS image, read independently

/// expected (init mask, data if known) of every address of a new simulator
fn expected_new(fill: Option<u16>) -> Vec<(Option<u16>, u16)> {
    // start: every word uninitialised holding the fill value; the I/O page initialised zeros;
    // the OS object file on top (its reserved words lose their initialisation, keep their data)
    let mut e: Vec<(Option<u16>, u16)> = (0..=u16::MAX).map(|a| if a >= 0xFE00 { (Some(0), 0xFFFF) } else { (fill, 0) }).collect();
    for (a, w) in _os_obj_file().addr_iter() {
        match w { Some(v) => e[a as usize] = (Some(v), 0xFFFF), None => e[a as usize].1 = 0 }
    }
    e
}
fn os_addrs() -> Vec<u16> { _os_obj_file().addr_iter().map(|(a, _)| a).collect() }

// ------------------------------------------------------------------ sim.new

fn new_queries(r: &mut Rng, all_edges: bool) -> Vec<u16> {
    let mut q: Vec<u16> = vec![];
    if all_edges {
        q.extend([0x0000u16, 0x0001, 0x00FF, 0x0100, 0x017F, 0x0180, 0x01FF, 0x0200, 0x02FF, 0x0300, 0x2FFF, 0x3000, 0x3001,
                  0xFDFF, 0xFE00, 0xFE01, 0xFE02, 0xFE04, 0xFE06, 0xFFFC, 0xFFFE, 0xFFFF]);
        for (s, ws) in _os_obj_file().verif_blocks() {
            let e = s.wrapping_add(ws.len() as u16);
            q.extend([s.wrapping_sub(1), s, s.wrapping_add(1), e.wrapping_sub(1), e, e.wrapping_add(1)]);
            // the first and last reserved word of the block, if any
            if let Some(k) = ws.iter().position(|w| w.is_none()) { q.push(s.wrapping_add(k as u16)); }
            if let Some(k) = ws.iter().rposition(|w| w.is_none()) { q.push(s.wrapping_add(k as u16)); }
        }
    } else {
        for _ in 0..6 { q.push(*r.pick(&BOUNDARY)); }
    }
    for _ in 0..24 { q.push(pick_addr(r)); }
    for _ in 0..8 { q.push(r.below(0x300) as u16); }
    q
}

fn check_new_layout(ctx: &Ctx, sim: &Simulator, fill: Option<u16>, what: &str, replay: &str) {
    let exp = expected_new(fill);
    let mut bad = 0;
    for a in 0..=u16::MAX {
        let (d, n) = sim.mem[a].verif_parts();
        let (ed, en) = exp[a as usize];
        if n != en || ed.is_some_and(|x| x != d) {
            bad += 1;
            if bad <= 2 {
                ctx.fail("C29", "new_layout", format!("Simulator::new ({what}): word at {a:#06x} is ({d:#06x}, init {n:#06x}), expected ({ed:?}, init {en:#06x})"), replay.into());
            }
        }
    }
    if sim.pc != 0x3000 || sim.psr().get() != 0x8002 {
        ctx.fail("C29", "new_pc_psr", format!("Simulator::new ({what}): pc={:#06x} psr={:#06x}, expected x3000 / x8002", sim.pc, sim.psr().get()), replay.into());
    }
    // C31 (Known strategy): every register uninitialised with the given value; the memory part is the scan above
    for k in 0..8u8 {
        let (d, n) = sim.reg_file[reg(k)].verif_parts();
        if n != 0 || fill.is_some_and(|x| x != d) {
            ctx.fail("C31", "known_registers", format!("Simulator::new ({what}): R{k} = ({d:#06x}, init {n:#06x}), expected uninitialised {fill:?}"), replay.into());
        }
    }
    if let Some(f) = fill {
        // restated for C31 on its own domain: outside the OS image and the I/O page
        let os: std::collections::HashSet<u16> = os_addrs().into_iter().collect();
        for a in 0..0xFE00u16 {
            if !os.contains(&a) && sim.mem[a].verif_parts() != (f, 0) {
                ctx.fail("C31", "known_memory", format!("Known {{ {f:#06x} }}: word at {a:#06x} is {:?}", sim.mem[a].verif_parts()), replay.into());
                break;
            }
        }
    }
}

fn run_new(ctx: &Ctx) {
    let root = Rng::new(ctx.seed).fork(0x4E45);
    let fills_fixed = [0u16, 0xFFFF, 0x8000, 0x0001, 0x3000, 0xFE00, 0x7FFF];
    let per_combo = ctx.n(10, 60) as usize;
    let n = 16 * per_combo;
    par_for(n, |k| {
        let mut r = root.fork(k as u64 + 1);
        let combo = k % 16;
        let j = k / 16;
        let fill = if j < fills_fixed.len() { fills_fixed[j] } else { r.u16() };
        let flags = SimFlags { strict: combo & 1 != 0, use_real_traps: combo & 2 != 0, debug_frames: combo & 4 != 0,
                               ignore_privilege: combo & 8 != 0, machine_init: MachineInitStrategy::Known { value: fill } };
        let q = new_queries(&mut r, j < 2);
        let input = L(vec![t_flags(&flags), i(fill), list(q.iter(), |a| i(*a))]);
        let replay = format!("sim.new\t{input}");
        let Some(sim) = catch(|| Simulator::new(flags)) else {
            ctx.fail("C29", "new_panics", format!("Simulator::new panics at {}", crate::LAST_PANIC.with(|p| p.borrow().clone())), replay);
            ctx.case_to(k, "sim.new", &input, &panic());
            return;
        };
        check_new_layout(ctx, &sim, Some(fill), &format!("Known {fill:#06x}, flags {combo:04b}"), &replay);
        if sim.frame_stack.frames().is_some() != flags.debug_frames || sim.frame_stack.len() != 0 || sim.instructions_run != 0 || sim.flags != flags {
            ctx.fail("C29", "new_fields", "Simulator::new: frame stack / instruction count / flags not as constructed".into(), replay.clone());
        }
        let mut m = bare_machine(sim);
        let words = list(q.iter(), |a| t_word(m.sim.mem[*a]));
        let out = L(vec![words, t_rest(&mut m)]);
        ctx.case_to(k, "sim.new", &input, &out);
        if k < 1 { ctx.sample(format!("sim.new {} -> {}", cut(&input.to_string(), 200), cut(&out.to_string(), 200))); }
    });
    ctx.stat("new.cases", n as i64);
    // the other strategies: layout (initialisation state, OS, I/O page); seeded twice = same machine
    let m = ctx.n(6, 40);
    let mut r = root.fork(0);
    for k in 0..m {
        let seed = if k == 0 { 0 } else { r.next() };
        let fl = |init| SimFlags { machine_init: init, strict: k % 2 == 1, ..Default::default() };
        let a = Simulator::new(fl(MachineInitStrategy::Seeded { seed }));
        let b2 = Simulator::new(fl(MachineInitStrategy::Seeded { seed }));
        check_new_layout(ctx, &a, None, &format!("Seeded {seed}"), "");
        let (sa, sb) = (snap(&a), snap(&b2));
        if sa != sb {
            let d = mem_first_diff(&sa.mem, &sb.mem).map(|(x, p, q)| format!("word {x:#06x}: {p:?} vs {q:?}")).or_else(|| snap_rest_diff(&sa, &sb, true)).unwrap_or_default();
            ctx.fail("C31", "seeded_new_differs", format!("two Simulator::new with Seeded {{ {seed} }} differ: {d}"), String::new());
        }
        // a seeded fill is not constant (sanity of the oracle itself, not a property)
        let distinct: std::collections::HashSet<u16> = (0x3000..0x3100u16).map(|x| sa.mem[x as usize].0).collect();
        ctx.stat("new.seeded_distinct_values_in_256", distinct.len() as i64);
        let u = Simulator::new(fl(MachineInitStrategy::Unseeded));
        check_new_layout(ctx, &u, None, "Unseeded", "");
    }
    ctx.stat("new.seeded_pairs", m as i64);
}

fn cut(s: &str, n: usize) -> &str { &s[..n.min(s.len())] }

// ------------------------------------------------------------------ object files

/// A generated program (source text for the real assembler).
pub struct Prog { pub src: String, pub declares_external: bool }

fn gen_stmt(r: &mut Rng, nlabels: usize, max_words: usize) -> (String, usize) {
    let reg = |r: &mut Rng| r.below(8);
    match r.below(20) {
        0 | 1 => (format!("ADD R{}, R{}, #{}", reg(r), reg(r), r.range(-16, 15)), 1),
        2 => (format!("AND R{}, R{}, R{}", reg(r), reg(r), reg(r)), 1),
        3 => (format!("NOT R{}, R{}", reg(r), reg(r)), 1),
        4 => (format!("LDR R{}, R{}, #{}", reg(r), reg(r), r.range(-32, 31)), 1),
        5 => (format!("STR R{}, R{}, #{}", reg(r), reg(r), r.range(-32, 31)), 1),
        6 => (["HALT", "GETC", "OUT", "PUTS", "RET", "RTI", "TRAP x25", "TRAP xFF", "JMP R3", "JSRR R2"][r.below(10) as usize].to_string(), 1),
        7 => (format!("LD R{}, #{}", reg(r), r.range(-256, 255)), 1),
        8 => (format!("BRnz #{}", r.range(-256, 255)), 1),
        9 | 10 => (format!(".fill x{:04X}", r.u16()), 1),
        11 => (format!(".fill #{}", r.range(-32768, 32767)), 1),
        12 if nlabels > 0 => (format!(".fill LBL{}", r.below(nlabels as u64)), 1),
        13 | 14 if max_words >= 2 => {
            let n = match r.below(6) { 0 => 1, 1 => max_words.min(2000), 2 => 1 + r.below(max_words.min(300) as u64) as usize, _ => 1 + r.below(max_words.min(12) as u64) as usize };
            (format!(".blkw {n}"), n)
        }
        15 | 16 if max_words >= 2 => {
            let n = r.below((max_words - 1).min(14) as u64) as usize;
            let s: String = (0..n).map(|_| *r.pick(&['a', 'Z', '0', ' ', '!', 'q', '~'])).collect();
            (format!(".stringz \"{s}\""), n + 1)
        }
        _ => (format!(".fill x{:04X}", pick_instr(r)), 1),
    }
}

/// Blocks (start, statements, word count), pairwise disjoint, inside x0000..=xFE00
pub fn gen_prog(r: &mut Rng, want_external: bool) -> Prog {
    let nblocks = 1 + r.below(5) as usize;
    let mut placed: Vec<(u32, u32, Vec<String>)> = vec![]; // start, len, lines
    let mut nlabels = 0usize;
    let mut lines_of: Vec<(Vec<String>, Vec<usize>)> = vec![];
    let mut lens: Vec<u32> = vec![];
    for _ in 0..nblocks {
        let target = match r.below(10) { 0 => 1, 1 => 2 + r.below(3000) as usize, 2 => 200 + r.below(600) as usize, _ => 1 + r.below(40) as usize };
        let mut words = 0usize;
        let mut lines = vec![];
        let mut defs = vec![];
        while words < target {
            let (s, w) = gen_stmt(r, nlabels, target - words);
            if w > target - words { continue; }
            let lbl = if r.chance(1, 5) { nlabels += 1; defs.push(nlabels - 1); format!("LBL{} ", nlabels - 1) } else { String::new() };
            lines.push(format!("{lbl}{s}"));
            words += w;
        }
        lines_of.push((lines, defs));
        lens.push(words as u32);
    }
    let mut defined = vec![false; nlabels];
    for ((lines, defs), len) in lines_of.into_iter().zip(lens) {
        for _try in 0..30 {
            let start: u32 = match r.below(12) {
                0 => 0,
                1 => 0xFE00 - len,                                  // ends exactly at xFE00
                2 if !placed.is_empty() => { let p = r.pick(&placed); p.0 + p.1 }          // adjacent after
                3 if !placed.is_empty() => { let p = r.pick(&placed); p.0.saturating_sub(len) } // adjacent before
                4 => 0x3000u32.saturating_sub(len),                  // ends at x3000
                5 => 0x0200 + r.below(0x100) as u32,                 // inside the OS code
                6 => r.below(0x200) as u32,                          // inside the vector tables
                7 | 8 => 0x3000 + r.below(0x100) as u32,
                _ => r.below(0xFE00) as u32,
            };
            if start + len > 0xFE00 { continue; }
            if placed.iter().any(|p| start < p.0 + p.1 && p.0 < start + len) { continue; }
            for d in &defs { defined[*d] = true; }
            placed.push((start, len, lines));
            break;
        }
    }
    // emit the blocks in a random order
    let mut order: Vec<usize> = (0..placed.len()).collect();
    for k in (1..order.len()).rev() { order.swap(k, r.below(k as u64 + 1) as usize); }
    let mut src = String::new();
    let mut declares_external = false;
    if want_external { src.push_str(".external EXTSYM\n"); declares_external = true; }
    for &k in &order {
        let (start, _, lines) = &placed[k];
        src.push_str(&format!(".orig x{start:04X}\n"));
        for l in lines { src.push_str(l); src.push('\n'); }
        src.push_str(".end\n");
    }
    // labels referenced by `.fill LBLk` whose defining block could not be placed: define them in a
    // small block of their own
    let missing: Vec<usize> = (0..nlabels).filter(|k| !defined[*k]).collect();
    if !missing.is_empty() {
        let len = missing.len() as u32;
        if let Some(start) = (0x4000u32..0xF000).step_by(0x321).find(|s| !placed.iter().any(|p| *s < p.0 + p.1 && p.0 < *s + len)) {
            src.push_str(&format!(".orig x{start:04X}\n"));
            for k in missing { src.push_str(&format!("LBL{k} .fill #0\n")); }
            if want_external { src.push_str(".fill EXTSYM\n"); }
            src.push_str(".end\n");
        }
    }
    Prog { src, declares_external }
}

/// An object file written by hand in the binary format (what a file on disk may contain):
/// the only way to get wrapping, overlapping or I/O-page blocks, which the assembler refuses.
pub fn bin_obj(blocks: &[(u16, Vec<Option<u16>>)], external: Option<&str>) -> Option<ObjectFile> {
    let mut by: Vec<u8> = b"obj\x21\x10\x00\x01".to_vec();
    for (a, ws) in blocks {
        by.push(0);
        by.extend(a.to_le_bytes());
        by.extend((ws.len() as u16).to_le_bytes());
        for w in ws { match w { Some(v) => { by.push(0xFF); by.extend(v.to_le_bytes()); } None => by.extend([0u8; 3]) } }
    }
    if let Some(name) = external {
        by.push(1);
        by.extend(0u16.to_le_bytes());
        by.push(1);
        by.extend(0u64.to_le_bytes());
        by.extend((name.len() as u64).to_le_bytes());
        by.extend(name.as_bytes());
    }
    BinaryFormat::deserialize(&by)
}
fn gen_words(r: &mut Rng, n: usize) -> Vec<Option<u16>> {
    // runs of initialised / reserved words
    let mut v = Vec::with_capacity(n);
    while v.len() < n {
        let cap = match r.below(4) { 0 => 2, 1 => 40, _ => 8 };
        let run = 1 + r.below(cap) as usize;
        let some = r.chance(2, 3);
        for _ in 0..run.min(n - v.len()) { v.push(if some { Some(r.u16()) } else { None }); }
    }
    v
}
fn gen_handmade(r: &mut Rng, kind: u64) -> Option<ObjectFile> {
    match kind {
        // a block that wraps around xFFFF
        0 => { let n = 2 + r.below(60) as usize; let back = 1 + r.below(n as u64 - 1) as u16; bin_obj(&[(0u16.wrapping_sub(back), gen_words(r, n))], None) }
        // ends exactly at the top of memory (end wraps to 0)
        1 => { let n = 1 + r.below(40) as usize; bin_obj(&[((0x10000 - n as u32) as u16, gen_words(r, n))], None) }
        // overlapping blocks (later start overwrites the tail of the earlier)
        2 => { let a = pick_addr(r); let n = 4 + r.below(30) as usize; let b2 = a.wrapping_add(r.below(n as u64) as u16);
               let n2 = 1 + r.below(30) as usize;
               bin_obj(&[(a, gen_words(r, n)), (b2, gen_words(r, n2))], None) }
        // into the I/O page
        3 => { let n = 4 + r.below(0x210) as usize; bin_obj(&[(0xFE00 - r.below(8) as u16, gen_words(r, n))], None) }
        // empty blocks, single words
        4 => bin_obj(&[(pick_addr(r), vec![]), (pick_addr(r), gen_words(r, 1)), (0xFFFF, vec![Some(r.u16())]), (0, vec![None])], None),
        // the longest block a file can hold (65535 words), almost all reserved, wrapping
        5 => { let mut ws = vec![None; 65535]; for _ in 0..r.below(40) { let k = r.below(65535) as usize; ws[k] = Some(r.u16()); }
               for k in 0..r.below(30) as usize { ws[65534 - k] = Some(r.u16()); }
               bin_obj(&[(pick_addr(r), ws)], None) }
        // a wrapping block with a run that itself crosses the boundary, both kinds
        6 => { let some = r.chance(1, 2); let n = 8 + r.below(50) as usize;
               let ws: Vec<Option<u16>> = (0..n).map(|k| if (k >= 2 && k < n - 2) == some { Some(r.u16()) } else { None }).collect();
               bin_obj(&[(0u16.wrapping_sub(n as u16 / 2), ws)], None) }
        // unresolved external in a hand-written file
        _ => { let n = 1 + r.below(20) as usize; bin_obj(&[(pick_addr(r), gen_words(r, n))], Some("FOO")) }
    }
}

/// Objects with a run of 65536 or more words of one kind.  No public API produces them (both file
/// formats store a block length in 16 bits, the assembler refuses blocks that wrap); they are built
/// through the `verif_from_blocks` hook and used for the correspondence with the model only: the
/// loader's behaviour there (`chunk.len() as u16`) is modelled, not specified by C29.
fn gen_giant(r: &mut Rng, kind: u64) -> ObjectFile {
    let start = pick_addr(r);
    let ws: Vec<Option<u16>> = match kind {
        0 => vec![None; 65536],                                              // clears nothing
        1 => { let mut v = vec![None; 65536 + 1 + r.below(300) as usize]; v.push(Some(r.u16())); v } // clears len mod 2^16 words
        2 => { let mut v = vec![Some(7); 3]; v.extend(vec![None; 2 * 65536 + r.below(50) as usize]); v.extend([Some(1), Some(2)]); v }
        3 => vec![Some(r.u16()); 65536],                                     // slice length mismatch: panic
        4 => { let mut v = vec![None; 5]; v.extend(vec![Some(9); 65536 + r.below(100) as usize]); v } // panic
        _ => { let mut v = vec![None; 65535]; v.push(Some(1)); v.extend(vec![None; 65535]); v }       // long but every run is short
    };
    ObjectFile::verif_from_blocks(vec![(start, ws)])
}

/// C29 on the implementation: the load changed exactly what the file describes.
/// `before` is a full snapshot; the expected memory is recomputed from `addr_iter()` word by word.
fn check_load(ctx: &Ctx, obj: &ObjectFile, before: &Snap, after: &Snap, res_ok: bool, what: &str, replay: &str) {
    if has_external(obj) {
        if res_ok { ctx.fail("C29", "external_loaded", format!("{what}: an object file with an unresolved external was loaded"), replay.into()); }
        if before != after { ctx.fail("C29", "external_changed_state", format!("{what}: a refused load changed the machine"), replay.into()); }
        return;
    }
    if !res_ok { ctx.fail("C29", "load_refused", format!("{what}: load_obj_file failed on a file without externals"), replay.into()); return; }
    let mut exp = before.mem.clone();
    for (a, w) in obj.addr_iter() {
        match w { Some(v) => exp[a as usize] = (v, 0xFFFF), None => exp[a as usize].1 = 0 }
    }
    if let Some((a, e, g)) = mem_first_diff(&exp, &after.mem) {
        let inside = obj.addr_iter().any(|(x, _)| x == a);
        ctx.fail("C29", if inside { "load_image_wrong" } else { "load_touched_other_word" },
                 format!("{what}: after the load the word at {a:#06x} is {g:?}, expected {e:?} (before: {:?})", before.mem[a as usize]), replay.into());
    }
    if let Some(d) = snap_rest_diff(before, after, false) {
        ctx.fail("C29", "load_changed_registers", format!("{what}: the load changed {d}"), replay.into());
    }
    if before.mcr != after.mcr { ctx.fail("C29", "load_changed_registers", format!("{what}: the load changed MCR"), replay.into()); }
}

fn do_load_case(ctx: &Ctx, shard: usize, m: &mut Machine, fill: u16, srd: &[(u16, PList)], obj: &ObjectFile, what: &str, oracle: bool) -> bool {
    let state = t_state_now(m, fill, srd);
    let input = L(vec![state, t_blocks(obj), b(has_external(obj))]);
    let replay = format!("sim.load\t{}", cut(&input.to_string(), 20000));
    let before = snap(&m.sim);
    let sim = &mut m.sim;
    let res = catch(|| sim.load_obj_file(obj).is_ok());
    let out = match res {
        None => {
            if oracle { ctx.fail("C29", "load_panics", format!("{what}: load_obj_file panics at {}", crate::LAST_PANIC.with(|p| p.borrow().clone())), replay.clone()); }
            panic()
        }
        Some(okk) => {
            let after = snap(&m.sim);
            if oracle { check_load(ctx, obj, &before, &after, okk, what, &replay); }
            if okk {
                let mut d = vec![];
                for a in 0..=u16::MAX as usize { if before.mem[a] != after.mem[a] { d.push(L(vec![iu(a), i(after.mem[a].0), i(after.mem[a].1)])); } }
                ok(vec![L(d), t_rest(m)])
            } else { err(vec![]) }
        }
    };
    ctx.case_to(shard, "sim.load", &input, &out);
    if shard < 1 { ctx.sample(format!("sim.load ({what}) {} -> {}", cut(&input.to_string(), 160), cut(&out.to_string(), 200))); }
    matches!(res, Some(true))
}

fn run_some_steps(m: &mut Machine, r: &mut Rng, n: usize) -> usize {
    let mut done = 0;
    let mut errs = 0;
    for _ in 0..n {
        let (out, _, _) = m.step(r.chance(1, 10), r.chance(1, 10));
        done += 1;
        match out { Outcome::Panic => break, Outcome::Err(_) => { errs += 1; if errs >= 2 { break; } } Outcome::Ok => errs = 0 }
    }
    done
}

fn run_load(ctx: &Ctx) {
    let root = Rng::new(ctx.seed).fork(0x4C4F);
    let n = ctx.n(700, 9000) as usize;
    let (asm_ok, asm_err, hand, words_loaded, after_exec, reloads, unresolved) =
        (AtomicU64::new(0), AtomicU64::new(0), AtomicU64::new(0), AtomicU64::new(0), AtomicU64::new(0), AtomicU64::new(0), AtomicU64::new(0));
    let (at0, end_fe00, with_blkw, with_str) = (AtomicU64::new(0), AtomicU64::new(0), AtomicU64::new(0), AtomicU64::new(0));
    par_for(n, |k| {
        let mut r = root.fork(k as u64 + 1);
        // the object
        let handmade = k % 6 == 5;
        let (obj, what) = if handmade {
            let kind = (k / 6) as u64 % 8;
            match gen_handmade(&mut r, kind) { Some(o) => { hand.fetch_add(1, Relaxed); (o, format!("hand-written file kind {kind}")) } None => return }
        } else {
            let want_ext = r.chance(1, 8);
            let p = gen_prog(&mut r, want_ext);
            let debug = r.chance(2, 3);
            let ast = match parse_ast(&p.src) { Ok(a) => a, Err(_) => { asm_err.fetch_add(1, Relaxed); return; } };
            let o = if debug { assemble_debug(ast, &p.src) } else { assemble(ast) };
            match o {
                Ok(o) => {
                    asm_ok.fetch_add(1, Relaxed);
                    // the assembler's own statement about externals, cross-checked with the source
                    // (since the repair of C21, `assemble` keeps the symbol table of a source that declares externals,
                    // so the flag no longer depends on the debug mode)
                    if has_external(&o) != p.declares_external {
                        ctx.fail("C29", "external_flag", format!("object built {} debug symbols from a source {} .external reports has_external={}",
                                 if debug { "with" } else { "without" }, if p.declares_external { "with" } else { "without" }, has_external(&o)), String::new());
                    }
                    if p.src.contains(".blkw") { with_blkw.fetch_add(1, Relaxed); }
                    if p.src.contains(".stringz") { with_str.fetch_add(1, Relaxed); }
                    (o, format!("assembled program ({} blocks)", p.src.matches(".orig").count()))
                }
                Err(_) => { asm_err.fetch_add(1, Relaxed); return; }
            }
        };
        for (s, ws) in obj.verif_blocks() {
            if s == 0 && !ws.is_empty() { at0.fetch_add(1, Relaxed); }
            if s as usize + ws.len() == 0xFE00 { end_fe00.fetch_add(1, Relaxed); }
            words_loaded.fetch_add(ws.len() as u64, Relaxed);
        }
        if has_external(&obj) { unresolved.fetch_add(1, Relaxed); }
        // the machine
        let mode = r.below(4);
        let (mut m, fill, srd) = if mode == 0 {
            // fresh, every flag combination / fill value
            let fill = match r.below(3) { 0 => 0, 1 => 0xFFFF, _ => r.u16() };
            let c = r.below(16);
            let flags = SimFlags { strict: c & 1 != 0, use_real_traps: c & 2 != 0, debug_frames: c & 4 != 0, ignore_privilege: c & 8 != 0,
                                   machine_init: MachineInitStrategy::Known { value: fill } };
            (bare_machine(Simulator::new(flags)), fill, vec![])
        } else {
            let st = gen_setup(&mut r);
            let mut m = build(&st);
            if mode >= 2 { let s = 1 + r.below(40) as usize; run_some_steps(&mut m, &mut r, s); after_exec.fetch_add(1, Relaxed); }
            (m, st.fill, st.sr_defns.clone())
        };
        let loaded = do_load_case(ctx, k, &mut m, fill, &srd, &obj, &what, true);
        // a second load on top (the same file again, or another one), sometimes after more execution
        if loaded && r.chance(1, 2) {
            if r.chance(1, 2) { let s = r.below(20) as usize; run_some_steps(&mut m, &mut r, s); }
            let again = if r.chance(1, 3) { None } else {
                let p = gen_prog(&mut r, false);
                parse_ast(&p.src).ok().and_then(|a| assemble(a).ok())
            };
            reloads.fetch_add(1, Relaxed);
            do_load_case(ctx, k, &mut m, fill, &srd, again.as_ref().unwrap_or(&obj), "second load", true);
        }
    });
    // runs of 65536+ words (hook-built, correspondence only)
    let ng = ctx.n(6, 36) as usize;
    par_for(ng, |k| {
        let mut r = root.fork(0x6000 + k as u64);
        let obj = gen_giant(&mut r, k as u64 % 6);
        let fill = r.u16();
        let mut m = bare_machine(Simulator::new(SimFlags { machine_init: MachineInitStrategy::Known { value: fill }, ..Default::default() }));
        // something to clear: initialised words around the start of the block
        let s0 = obj.verif_blocks()[0].0;
        for d in 0..400u16 { m.sim.mem[s0.wrapping_add(d)] = word((d, 0xFFFF)); }
        do_load_case(ctx, k, &mut m, fill, &[], &obj, "giant run", false);
    });
    ctx.stat("load.giant_runs", ng as i64);
    // other initialisation strategies: direct oracle only (the model's filler is a Known value)
    let mut r = root.fork(0);
    for k in 0..ctx.n(30, 300) {
        let init = if k % 2 == 0 { MachineInitStrategy::Seeded { seed: r.next() } } else { MachineInitStrategy::Unseeded };
        let mut sim = Simulator::new(SimFlags { machine_init: init, ..Default::default() });
        let p = gen_prog(&mut r, false);
        let Some(obj) = parse_ast(&p.src).ok().and_then(|a| assemble(a).ok()) else { continue };
        let before = snap(&sim);
        let okk = catch(|| sim.load_obj_file(&obj).is_ok());
        match okk {
            Some(okk) => check_load(ctx, &obj, &before, &snap(&sim), okk, &format!("{init:?}"), &format!("source\t{}", p.src.replace('\n', "\\n"))),
            None => ctx.fail("C29", "load_panics", format!("{init:?}: load_obj_file panics"), String::new()),
        }
    }
    ctx.stat("load.objects_assembled", asm_ok.load(Relaxed) as i64);
    ctx.stat("load.assembler_refused", asm_err.load(Relaxed) as i64);
    ctx.stat("load.objects_handwritten", hand.load(Relaxed) as i64);
    ctx.stat("load.words_in_objects", words_loaded.load(Relaxed) as i64);
    ctx.stat("load.blocks_at_x0000", at0.load(Relaxed) as i64);
    ctx.stat("load.blocks_ending_xFE00", end_fe00.load(Relaxed) as i64);
    ctx.stat("load.objects_with_blkw", with_blkw.load(Relaxed) as i64);
    ctx.stat("load.objects_with_stringz", with_str.load(Relaxed) as i64);
    ctx.stat("load.after_execution", after_exec.load(Relaxed) as i64);
    ctx.stat("load.second_loads", reloads.load(Relaxed) as i64);
    ctx.stat("load.unresolved_external", unresolved.load(Relaxed) as i64);
}

// ------------------------------------------------------------------ reset

fn run_reset(ctx: &Ctx) {
    let root = Rng::new(ctx.seed).fork(0x5253);
    let n = ctx.n(500, 8000) as usize;
    let (steps, flag_changes, maps, attached, with_pause, seeded) = (AtomicU64::new(0), AtomicU64::new(0), AtomicU64::new(0), AtomicU64::new(0), AtomicU64::new(0), AtomicU64::new(0));
    par_for(n, |k| {
        let mut r = root.fork(k as u64 + 1);
        let st = gen_setup(&mut r);
        let mut m = build(&st);
        let mcr0 = Arc::clone(m.sim.mcr());
        // a seeded initialisation strategy: checked directly only (C30 covers every deterministic strategy)
        let use_seeded = k % 5 == 4;
        let mut fill = st.fill;
        let nrounds = 1 + r.below(3);
        for _ in 0..nrounds {
            let s = r.below(30) as usize;
            steps.fetch_add(run_some_steps(&mut m, &mut r, s) as u64, Relaxed);
            for _ in 0..r.below(4) {
                match r.below(9) {
                    0 => { m.sim.flags.strict = !m.sim.flags.strict; flag_changes.fetch_add(1, Relaxed); }
                    1 => { m.sim.flags.use_real_traps = !m.sim.flags.use_real_traps; flag_changes.fetch_add(1, Relaxed); }
                    2 => { m.sim.flags.debug_frames = !m.sim.flags.debug_frames; flag_changes.fetch_add(1, Relaxed); }
                    3 => { m.sim.flags.ignore_privilege = !m.sim.flags.ignore_privilege; flag_changes.fetch_add(1, Relaxed); }
                    4 => { fill = r.u16(); flag_changes.fetch_add(1, Relaxed); }
                    5 => { let _ = m.sim.mmap_internal(0xFE08 + r.below(16) as u16, [lc3_ensemble::sim::InternalRegister::PC, lc3_ensemble::sim::InternalRegister::PSR,
                               lc3_ensemble::sim::InternalRegister::MCR, lc3_ensemble::sim::InternalRegister::SavedSP][r.below(4) as usize]); maps.fetch_add(1, Relaxed); }
                    6 => { let a = match r.below(3) { 0 => 0xFFFC, 1 => 0xFFFE, _ => 0xFE08 + r.below(16) as u16 }; m.sim.munmap_internal(a); maps.fetch_add(1, Relaxed); }
                    7 => {
                        attached.fetch_add(1, Relaxed);
                        match r.below(4) {
                            0 => attach_kb(&mut m, (0..r.below(4)).map(|_| r.next() as u8).collect(), r.chance(1, 2)),
                            1 => attach_ds(&mut m, (0..r.below(3)).map(|_| r.next() as u8).collect()),
                            2 => { let lo = 1 + r.below(4) as u32; attach_timer(&mut m, r.chance(3, 4), lo, lo + r.below(5) as u32, r.next(), 0x80 + r.below(4) as u8, r.below(9) as u8); }
                            _ => attach_script(&mut m, (0..r.below(6)).map(|_| if r.chance(1, 4) { Some(Irq::Vec(0x80 + r.below(3) as u8, r.below(9) as u8)) } else { None }).collect()),
                        }
                    }
                    _ => { let a = pick_addr(&mut r); if r.chance(3, 4) { m.sim.breakpoints.insert(Breakpoint::PC(a)); } else { m.sim.breakpoints.remove(&Breakpoint::PC(a)); } }
                }
            }
        }
        // sometimes a load (non-empty allocation table) and a bounded `run` (sets the pause status)
        if r.chance(1, 4) {
            let p = gen_prog(&mut r, false);
            if let Some(o) = parse_ast(&p.src).ok().and_then(|a| assemble(a).ok()) { let sim = &mut m.sim; let _ = catch(|| sim.load_obj_file(&o)); }
        }
        if r.chance(1, 3) {
            if r.chance(1, 2) { let pc = m.sim.pc; m.sim.breakpoints.insert(Breakpoint::PC(pc.wrapping_add(1 + r.below(3) as u16))); }
            let lim = 1 + r.below(40);
            let sim = &mut m.sim;
            let _ = catch(|| sim.run_with_limit(lim));
            if m.sim.hit_breakpoint() || m.sim.hit_halt() { with_pause.fetch_add(1, Relaxed); }
        }
        m.sim.flags.machine_init = if use_seeded { MachineInitStrategy::Seeded { seed: r.next() } } else { MachineInitStrategy::Known { value: fill } };
        if use_seeded { seeded.fetch_add(1, Relaxed); }
        let flags = m.sim.flags;

        // what must be kept
        let bps: Vec<u16> = { let mut v: Vec<u16> = m.sim.breakpoints.iter().filter_map(|b| if let Breakpoint::PC(a) = b { Some(*a) } else { None }).collect(); v.sort(); v };
        let mut ireg_before = m.sim.verif_ireg_map().iter().map(|(a, x)| (*a, ireg_code_of(*x))).collect::<Vec<_>>();
        ireg_before.sort();
        let strong: Vec<usize> = m.extras.iter().map(|x| match x { ExtraH::Timer(t) => Arc::strong_count(t), ExtraH::Script(q) => Arc::strong_count(q) }).collect();
        let kb_strong = m.kb.as_ref().map(Arc::strong_count);
        let ds_strong = m.ds.as_ref().map(Arc::strong_count);
        let mcr_val = m.sim.mcr().load(Relaxed);
        let kb_before: Option<Vec<u8>> = m.kb.as_ref().map(|q| q.read().unwrap_or_else(|e| e.into_inner()).iter().copied().collect());
        let ds_before: Option<Vec<u8>> = m.ds.as_ref().map(|q| q.read().unwrap_or_else(|e| e.into_inner()).clone());
        let script_before: Vec<Option<usize>> = m.extras.iter().map(|x| match x { ExtraH::Script(q) => Some(q.lock().unwrap().len()), _ => None }).collect();

        let q = new_queries(&mut r, k % 16 == 0);
        let state = if use_seeded { L(vec![]) } else { t_state_now(&mut m, st.fill, &st.sr_defns) };
        let pause_class = |sim: &Simulator| if sim.hit_halt() { 1 } else if sim.hit_breakpoint() { 2 } else { 0 };
        let pause_before = pause_class(&m.sim);
        let only_pc_bps = m.sim.breakpoints.iter().all(|b| matches!(b, Breakpoint::PC(_)));
        let kbl = r.chance(1, 5);
        let dsl = r.chance(1, 5);
        let res = {
            let kbh = m.kb.clone();
            let dsh = m.ds.clone();
            let _g1 = if kbl { kbh.as_ref().map(|x| x.write().unwrap_or_else(|e| e.into_inner())) } else { None };
            let _g2 = if dsl { dsh.as_ref().map(|x| x.write().unwrap_or_else(|e| e.into_inner())) } else { None };
            let sim = &mut m.sim;
            catch(|| sim.reset())
        };
        let draws: Vec<Tree> = m.extras.iter().filter_map(|x| match x { ExtraH::Timer(t) => Some(i(t.lock().unwrap().get_remaining())), _ => None }).collect();
        let env = L(vec![b(kbl && m.kb.is_some()), b(dsl && m.ds.is_some()), L(draws)]);
        let input = L(vec![state, env, i(fill), list(q.iter(), |a| i(*a))]);
        let replay = if use_seeded { String::new() } else { format!("sim.reset\t{}", cut(&input.to_string(), 20000)) };
        if res.is_none() {
            ctx.fail("C30", "reset_panics", format!("reset panics at {}", crate::LAST_PANIC.with(|p| p.borrow().clone())), replay);
            if !use_seeded { ctx.case_to(k, "sim.reset", &input, &panic()); }
            return;
        }
        // ---- C30, directly: the architectural state is that of Simulator::new(flags)
        let fresh = Simulator::new(flags);
        let (a, f) = (snap(&m.sim), snap(&fresh));
        if let Some((x, g, e)) = mem_first_diff(&a.mem, &f.mem) {
            ctx.fail("C30", "reset_memory", format!("after reset the word at {x:#06x} is {g:?}; a new simulator with the same flags has {e:?}"), replay.clone());
        }
        // the MCR value is part of the kept handle, not of the fresh state
        let mut f2 = f.clone(); f2.mcr = a.mcr;
        if let Some(d) = snap_rest_diff(&a, &f2, true) { ctx.fail("C30", "reset_state", format!("after reset: {d} (left: reset machine, right: new simulator)"), replay.clone()); }
        if m.sim.frame_stack.frames().map(|x| x.len()) != fresh.frame_stack.frames().map(|x| x.len()) {
            ctx.fail("C30", "reset_state", "after reset: frame list differs from a new simulator's".into(), replay.clone());
        }
        if m.sim.observer.take_mem_accesses().count() != 0 { ctx.fail("C30", "reset_state", "after reset: the access observer is not empty".into(), replay.clone()); }
        // ---- kept
        if m.sim.flags != flags { ctx.fail("C30", "reset_lost_flags", format!("flags {:?} became {:?}", flags, m.sim.flags), replay.clone()); }
        let bps2: Vec<u16> = { let mut v: Vec<u16> = m.sim.breakpoints.iter().filter_map(|b| if let Breakpoint::PC(a) = b { Some(*a) } else { None }).collect(); v.sort(); v };
        if bps != bps2 || m.sim.breakpoints.len() != bps.len() { ctx.fail("C30", "reset_lost_breakpoints", format!("breakpoints {bps:?} became {bps2:?}"), replay.clone()); }
        if !Arc::ptr_eq(&mcr0, m.sim.mcr()) { ctx.fail("C30", "reset_lost_mcr", "the MCR handle was replaced".into(), replay.clone()); }
        if m.sim.mcr().load(Relaxed) != mcr_val { ctx.fail("C30", "reset_lost_mcr", "the MCR value changed".into(), replay.clone()); }
        let mut ireg_after = m.sim.verif_ireg_map().iter().map(|(a, x)| (*a, ireg_code_of(*x))).collect::<Vec<_>>();
        ireg_after.sort();
        if ireg_before != ireg_after { ctx.fail("C30", "reset_lost_mappings", format!("internal-register mappings {ireg_before:?} became {ireg_after:?}"), replay.clone()); }
        let strong2: Vec<usize> = m.extras.iter().map(|x| match x { ExtraH::Timer(t) => Arc::strong_count(t), ExtraH::Script(q) => Arc::strong_count(q) }).collect();
        if strong != strong2 || kb_strong != m.kb.as_ref().map(Arc::strong_count) || ds_strong != m.ds.as_ref().map(Arc::strong_count) {
            ctx.fail("C30", "reset_lost_devices", "a device handle was dropped by reset".into(), replay.clone());
        }
        // devices still dispatch: the display register writes into the same buffer, the keyboard status reads the same queue
        if let Some(bf) = m.ds.clone() {
            if !dsl && !bf.read().unwrap_or_else(|e| e.into_inner()).is_empty() { ctx.fail("C30", "reset_device_state", "display buffer not cleared by reset".into(), replay.clone()); }
            if dsl && Some(bf.read().unwrap_or_else(|e| e.into_inner()).clone()) != ds_before { ctx.fail("C30", "reset_device_state", "locked display buffer changed".into(), replay.clone()); }
        }
        if let Some(bf) = m.kb.clone() {
            let now: Vec<u8> = bf.read().unwrap_or_else(|e| e.into_inner()).iter().copied().collect();
            if !kbl && !now.is_empty() { ctx.fail("C30", "reset_device_state", "keyboard queue not cleared by reset".into(), replay.clone()); }
            if kbl && Some(now) != kb_before { ctx.fail("C30", "reset_device_state", "locked keyboard queue changed".into(), replay.clone()); }
        }
        let script_after: Vec<Option<usize>> = m.extras.iter().map(|x| match x { ExtraH::Script(q) => Some(q.lock().unwrap().len()), _ => None }).collect();
        if script_before != script_after { ctx.fail("C30", "reset_device_state", "an interrupt source was polled by reset".into(), replay.clone()); }

        if !use_seeded {
            let words = list(q.iter(), |a| t_word(m.sim.mem[*a]));
            let rest = t_rest(&mut m);
            let out = L(vec![words, rest, list(ireg_after.iter(), |(a, c)| L(vec![i(*a), i(*c)]))]);
            ctx.case_to(k, "sim.reset", &input, &out);
            // the non-machine part of the simulator (model/Session.v): breakpoints kept, pause status as new
            if only_pc_bps {
                let t_bps = |v: &Vec<u16>| list(v.iter(), |a| L(vec![i(0), i(*a)]));
                let fi = input.as_l().unwrap();
                let sin = L(vec![fi[0].clone(), fi[1].clone(), fi[2].clone(), t_bps(&bps), i(pause_before)]);
                ctx.case_to(k, "session.reset", &sin, &L(vec![t_bps(&bps2), i(pause_class(&m.sim)), i(m.sim.pc)]));
            }
            if k < 1 { ctx.sample(format!("sim.reset {} -> {}", cut(&input.to_string(), 160), cut(&out.to_string(), 200))); }
        }
        // the devices really are still attached: a write to DDR reaches the buffer, KBSR sees a key
        if let Some(bf) = m.ds.clone() {
            let okw = m.sim.device_handler.io_write(0xFE06, 0x41);
            if !okw || bf.read().unwrap_or_else(|e| e.into_inner()).last() != Some(&0x41) { ctx.fail("C30", "reset_lost_devices", "after reset a DDR write no longer reaches the display buffer".into(), replay.clone()); }
        }
        if let Some(bf) = m.kb.clone() {
            { let mut g = bf.write().unwrap_or_else(|e| e.into_inner()); g.clear(); g.push_back(0x42); }
            if m.sim.device_handler.io_read(0xFE02, true) != Some(0x42) { ctx.fail("C30", "reset_lost_devices", "after reset KBDR no longer reads the keyboard buffer".into(), replay.clone()); }
        }
    });
    ctx.stat("reset.histories", n as i64);
    ctx.stat("reset.steps_before", steps.load(Relaxed) as i64);
    ctx.stat("reset.flag_changes", flag_changes.load(Relaxed) as i64);
    ctx.stat("reset.map_unmap", maps.load(Relaxed) as i64);
    ctx.stat("reset.devices_attached", attached.load(Relaxed) as i64);
    ctx.stat("reset.with_pause_status", with_pause.load(Relaxed) as i64);
    ctx.stat("reset.seeded_strategy", seeded.load(Relaxed) as i64);
}

// ------------------------------------------------------------------ C31: two runs

#[derive(Clone)]
struct RunCfg {
    flags: SimFlags,
    src: String,
    input: Vec<u8>,
    kb_ie: bool,
    timers: Vec<(bool, u32, u32, u64, u8, u8)>,
    lock_seed: u64,
    steps: usize,
    /// the machine is reset (the usual "run again" path) before the program is loaded
    reset_first: bool,
}
fn gen_run_cfg(r: &mut Rng) -> RunCfg {
    let init = match r.below(5) { 0 => MachineInitStrategy::Known { value: r.u16() }, _ => MachineInitStrategy::Seeded { seed: r.next() } };
    let flags = SimFlags { strict: r.chance(1, 5), use_real_traps: r.chance(1, 2), debug_frames: r.chance(1, 2), ignore_privilege: r.chance(1, 4), machine_init: init };
    // a program at x3000 that computes with whatever the registers and memory hold
    let n = 8 + r.below(40);
    let mut src = String::from(".orig x3000\n");
    for _ in 0..n {
        match r.below(8) {
            0 => src.push_str(&format!("ADD R{}, R{}, R{}\n", r.below(8), r.below(8), r.below(8))),
            1 => src.push_str(&format!("LD R{}, #{}\n", r.below(8), r.range(20, 120))),
            2 => src.push_str(&format!("ST R{}, #{}\n", r.below(8), r.range(20, 120))),
            3 => src.push_str(["GETC\n", "OUT\n", "AND R0, R0, #15\n", "LDR R1, R6, #0\n"][r.below(4) as usize]),
            4 => src.push_str(&format!("BRn #{}\n", r.range(1, 3))),
            _ => src.push_str(&format!(".fill x{:04X}\n", pick_instr(r))),
        }
    }
    src.push_str(&format!("BRnzp #-{}\n.end\n", 1 + r.below(n.min(200))));
    let timers = (0..r.below(3)).map(|_| { let lo = 1 + r.below(6) as u32; (r.chance(5, 6), lo, lo + r.below(9) as u32, r.next(), 0x80 + r.below(4) as u8, r.below(8) as u8) }).collect();
    RunCfg { flags, src, input: (0..r.below(6)).map(|_| r.next() as u8).collect(), kb_ie: r.chance(1, 3), timers, lock_seed: r.next(), steps: 20 + r.below(120) as usize, reset_first: r.chance(1, 3) }
}
fn build_run(c: &RunCfg) -> Option<Machine> {
    let obj = parse_ast(&c.src).ok().and_then(|a| assemble(a).ok())?;
    let mut sim = Simulator::new(c.flags);
    if c.reset_first { sim.reset(); }
    sim.load_obj_file(&obj).ok()?;
    let mut m = bare_machine(sim);
    attach_kb(&mut m, c.input.clone(), c.kb_ie);
    attach_ds(&mut m, vec![]);
    for (en, lo, hi, seed, v, p) in &c.timers { attach_timer(&mut m, *en, *lo, *hi, *seed, *v, *p); }
    Some(m)
}

fn run_two_runs(ctx: &Ctx) {
    let root = Rng::new(ctx.seed).fork(0x3331);
    let n = ctx.n(300, 5000) as usize;
    let model_cases = ctx.n(4, 30) as usize;
    let (steps, differ_other_seed, tdraws) = (AtomicU64::new(0), AtomicU64::new(0), AtomicU64::new(0));
    par_for(n, |k| {
        let mut r = root.fork(k as u64 + 1);
        let c = gen_run_cfg(&mut r);
        let (Some(mut a), Some(mut b2)) = (build_run(&c), build_run(&c)) else { ctx.stat("repro.program_refused", 1); return };
        if snap(&a.sim) != snap(&b2.sim) { ctx.fail("C31", "two_runs_differ", format!("two machines built from {:?}{} differ before the first step", c.flags.machine_init, if c.reset_first { " and reset" } else { "" }), String::new()); return; }
        let state = if k < model_cases { Some(t_state_now(&mut a, 0, &[])) } else { None };
        let (mut la, mut lb) = (Rng::new(c.lock_seed), Rng::new(c.lock_seed));
        let mut envs = vec![];
        let mut obs = vec![];
        let mut errs = 0;
        for s in 0..c.steps {
            let (oa, ea, ta) = a.step(la.chance(1, 8), la.chance(1, 8));
            let (ob, eb, tb) = b2.step(lb.chance(1, 8), lb.chance(1, 8));
            steps.fetch_add(1, Relaxed);
            if let Some(l) = ea.as_l() { tdraws.fetch_add(l[2].as_l().map(|x| x.len()).unwrap_or(0) as u64, Relaxed); }
            if oa != ob || ea != eb || ta != tb {
                ctx.fail("C31", "two_runs_differ", format!("step {s}: two runs from the same seeds ({:?}, {} timers) observe {} vs {}", c.flags.machine_init, c.timers.len(),
                         cut(&ta.to_string(), 300), cut(&tb.to_string(), 300)), format!("source\t{}", c.src.replace('\n', "\\n")));
                return;
            }
            envs.push(ea);
            obs.push(ta);
            match oa { Outcome::Panic => break, Outcome::Err(_) => { errs += 1; if errs >= 2 { break; } } Outcome::Ok => errs = 0 }
        }
        let (sa, sb) = (snap(&a.sim), snap(&b2.sim));
        if sa != sb {
            let d = mem_first_diff(&sa.mem, &sb.mem).map(|(x, p, q)| format!("word {x:#06x}: {p:?} vs {q:?}")).or_else(|| snap_rest_diff(&sa, &sb, true)).unwrap_or_default();
            ctx.fail("C31", "two_runs_differ", format!("final states of two runs from the same seeds differ: {d}"), format!("source\t{}", c.src.replace('\n', "\\n")));
        }
        if a.ds.as_ref().map(|x| x.read().unwrap_or_else(|e| e.into_inner()).clone()) != b2.ds.as_ref().map(|x| x.read().unwrap_or_else(|e| e.into_inner()).clone()) {
            ctx.fail("C31", "two_runs_differ", "outputs of two runs from the same seeds differ".into(), String::new());
        }
        // the model, started from the described machine and fed with the observed draws, reproduces the history
        if let Some(state) = state {
            ctx.case_to(k, "sim.run", &L(vec![state, L(envs)]), &L(vec![L(obs), a.mem_diff()]));
        }
        // sanity of the oracle: another machine seed gives another machine (counted, not required)
        if let MachineInitStrategy::Seeded { seed } = c.flags.machine_init {
            if k % 8 == 0 {
                let mut c2 = c.clone();
                c2.flags.machine_init = MachineInitStrategy::Seeded { seed: seed ^ 1 };
                if let Some(o) = build_run(&c2) { if snap(&o.sim).mem != snap(&build_run(&c).unwrap().sim).mem { differ_other_seed.fetch_add(1, Relaxed); } }
            }
        }
    });
    ctx.stat("repro.configurations", n as i64);
    ctx.stat("repro.paired_steps", steps.load(Relaxed) as i64);
    ctx.stat("repro.timer_draws", tdraws.load(Relaxed) as i64);
    ctx.stat("repro.other_seed_differs", differ_other_seed.load(Relaxed) as i64);
    ctx.stat("repro.model_replays", model_cases.min(n) as i64);
}

pub fn run(ctx: &Ctx, _replay: Option<&str>) {
    run_new(ctx);
    run_load(ctx);
    run_reset(ctx);
    run_two_runs(ctx);
}
