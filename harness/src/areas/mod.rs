use crate::ctx::Ctx;
pub mod instr;
pub mod offset;

/// Area registry.  Each area generates its cases from `ctx.seed`, runs the implementation and
/// records correspondence cases (`ctx.case`) and direct property failures (`ctx.fail`).
pub fn run(area: &str, ctx: &Ctx, replay: Option<&str>) -> bool {
    match area {
        "instr" => instr::run(ctx, replay),
        "offset" => offset::run(ctx, replay),
        _ => return false,
    }
    true
}
