//! C17 / C18 / C19 — object-file formats (src/asm/encoding.rs) and what a deserialized object
//! can reach afterwards (re-serialize, link, load).
//!
//! Objects for the round trips come from the real parser / assembler / linker on generated
//! programs (externals, `.external` anywhere, .blkw, several blocks, debug and non-debug,
//! hostile source texts).  Untrusted inputs: grammar-aware files built from a mutated "spec"
//! (binary and text), line/byte mutations of valid serializations, random bytes / text.
//!
//! Correspondence ops (model: coq/model/ObjBin.v, ObjText.v, ObjPipeline.v):
//!   objbin.ser  obj(impl order) -> bytes        objbin.deser  bytes -> (0 obj)|(1)|(2)
//!   objtext.ser obj -> code points              objtext.deser text  -> (0 obj)|(1)|(2)
//!   objbin.inv / objtext.inv  obj -> 1          objpipe.link (a b) / objpipe.load o -> (0)|(2)
//! Direct oracles: deserialize(serialize(o)) == o (C17, C18); catch_unwind on read, write,
//! link with assembled files and load (C19).
use crate::ctx::{catch, par_for, Ctx};
use crate::objwire::t_obj;
use crate::rng::Rng;
use crate::tree::*;
use lc3_ensemble::asm::encoding::{BinaryFormat, ObjFileFormat, TextFormat};
use lc3_ensemble::asm::{assemble, assemble_debug, ObjectFile};
use lc3_ensemble::parse::parse_ast;
use lc3_ensemble::sim::Simulator;

// ------------------------------------------------------------------------------------------
// wire helpers

/// object tree with labels and relocation entries in the implementation's HashMap iteration
/// order (the order `BinaryFormat::serialize` writes them in)
fn t_obj_ord(o: &ObjectFile) -> Tree {
    let sym = match o.symbol_table() {
        None => L(vec![]),
        Some(s) => {
            let dbg = match (s.verif_line_blocks(), s.source_info()) {
                (Some(lines), Some(src)) => L(vec![L(vec![
                    list(lines.iter(), |(k, v)| L(vec![iu(*k), list(v.iter(), |a| i(*a))])),
                    chars(src.source()),
                ])]),
                _ => L(vec![]),
            };
            L(vec![L(vec![
                list(s.verif_labels().iter(), |(n, a, st, e)| L(vec![chars(n), L(vec![i(*a), iu(*st), b(*e)])])),
                list(s.verif_relocs().iter(), |(a, n)| L(vec![i(*a), chars(n)])),
                dbg,
            ])])
        }
    };
    L(vec![list(o.verif_blocks().iter(), |(a, ws)| L(vec![i(*a), list(ws.iter(), |w| opt(*w, |x| i(x)))])), sym])
}
fn t_read(r: &Option<Option<ObjectFile>>) -> Tree {
    match r {
        None => panic(),
        Some(None) => err(vec![]),
        Some(Some(o)) => ok(vec![t_obj(o)]),
    }
}
fn t_done<T>(r: &Option<T>) -> Tree { if r.is_some() { ok(vec![]) } else { panic() } }


/// `ctx.fail` keeps the first 200 failures of a run; so that every (property, class) is
/// represented there, record at most 12 per class and only count the others.
fn fail(ctx: &Ctx, property: &str, class: &str, what: String, replay: String) {
    use std::collections::HashMap;
    use std::sync::Mutex;
    static SEEN: Mutex<Option<HashMap<String, u32>>> = Mutex::new(None);
    let n = {
        let mut g = SEEN.lock().unwrap();
        let m = g.get_or_insert_with(HashMap::new);
        let e = m.entry(format!("{property}.{class}")).or_insert(0);
        *e += 1;
        *e
    };
    if n <= 12 { ctx.fail(property, class, what, replay); } else { ctx.stat(&format!("fail.{property}.{class}"), 1); }
}

// ------------------------------------------------------------------------------------------
// program generator

const HOSTILE: &[&str] = &[
    "\"", "\\", "'", "\t", " | ", "|", "=", "====================", "#", ".", ";", "\\n", "\\u{41}", "\\x41",
    "\\", "\\\\", "\u{1}", "\u{7f}", "\u{0}", "\u{85}", "\u{a0}", "\u{2028}", "\u{feff}", "é", "漢", "😀", "ß", "\r",
    " ", "  ", "LINE | ADDR | SOURCE", ".DEBUG", "????", "0 | 3000 | x", "{", "}", "\\u{", "\u{e000}", "\u{10ffff}",
];
fn hostile(r: &mut Rng, n: u64) -> String {
    let mut s = String::new();
    for _ in 0..r.below(n + 1) {
        if r.chance(1, 2) { s.push_str(*r.pick(HOSTILE)); } else { s.push((0x20 + r.below(0x5f) as u8) as char); }
    }
    s
}
fn str_lit(r: &mut Rng) -> String {
    const P: &[&str] = &["a", "Z", " ", "|", " | ", "=", "#", ".", "\\n", "\\t", "\\\"", "\\\\", "'", "\\0", "é", "x41", ";", "{", "}"];
    let mut s = String::new();
    for _ in 0..r.below(7) { s.push_str(*r.pick(P)); }
    s
}

struct Prog { src: String }

/// `k` selects the address region and the global labels so that programs k and k+1 (mod 16)
/// link together: k defines G{k%6}, may declare G{(k+1)%6} external.
fn gen_program(r: &mut Rng, k: usize) -> Prog {
    let nl = if r.chance(1, 6) { "\r\n" } else { "\n" };
    let mut out: Vec<String> = vec![];
    let region = 0x3000u32 + (k as u32 % 16) * 0x0A00;
    let my_global = format!("G{}", k % 6);
    let ext_global = format!("G{}", (k + 1) % 6);
    let uni = ["é", "ß", "٣", "λ", ""];
    let pfx = format!("P{}{}_", k, uni[r.below(uni.len() as u64) as usize]);
    let use_ext = r.chance(2, 3);
    let mut ext_declared = false;
    let mut junk = |r: &mut Rng, out: &mut Vec<String>| {
        for _ in 0..r.below(3) {
            match r.below(5) {
                0 => out.push(String::new()),
                1 => out.push("   \t ".to_string()),
                2 => out.push(format!(";{}", hostile(r, 8))),
                3 => out.push(format!("  ; {}", hostile(r, 4))),
                _ => out.push(" ".to_string()),
            }
        }
    };
    junk(r, &mut out);
    if use_ext && r.chance(1, 3) { out.push(format!(".external {ext_global}")); ext_declared = true; }
    // now and then one giant block (its word array passes 64 KiB in the binary format: 3 bytes per word)
    let giant = k % 37 == 5;
    let nblocks = if giant { 1 } else { match r.below(10) { 0 => 0, 1..=5 => 1, 6..=8 => 2, _ => 3 } };
    let mut global_defined = false;
    for bi in 0..nblocks {
        junk(r, &mut out);
        let orig = region + bi as u32 * 0x300 + r.below(0x40) as u32;
        out.push(format!("{}.orig x{:04X}{}", if r.chance(1, 3) { "  " } else { "" }, orig, if r.chance(1, 4) { format!(" ;{}", hostile(r, 5)) } else { String::new() }));
        let nst = if giant { 1 + r.below(6) as usize } else { r.below(14) as usize };
        let giant_at = if giant { r.below(nst as u64) as usize } else { usize::MAX };
        // which statements carry a label
        let mut labels: Vec<Option<String>> = (0..nst).map(|si| if r.chance(1, 3) { Some(format!("{pfx}B{bi}L{si}")) } else { None }).collect();
        if !global_defined && nst > 0 && r.chance(3, 4) { let at = r.below(nst as u64) as usize; labels[at] = Some(my_global.clone()); global_defined = true; }
        let local: Vec<String> = labels.iter().flatten().cloned().collect();
        for si in 0..nst {
            if r.chance(1, 5) { junk(r, &mut out); }
            if use_ext && !ext_declared && r.chance(1, 4) { out.push(format!("  .external {ext_global}")); ext_declared = true; }
            let mut line = String::new();
            if let Some(l) = &labels[si] {
                line.push_str(l);
                match r.below(4) { 0 => { out.push(line.clone()); line.clear(); } 1 => line.push(':'), _ => {} }
                line.push(' ');
            }
            line.push_str("  ");
            let reg = |r: &mut Rng| format!("R{}", r.below(8));
            let stmt = match if si == giant_at { 99 } else { r.below(16) } {
                99 => format!(".blkw {}", *r.pick(&[21845u32, 21846, 21847, 0x6000, 32768, 40000])),
                0 => format!("ADD {}, {}, #{}", reg(r), reg(r), r.range(-16, 15)),
                1 => format!("AND {}, {}, {}", reg(r), reg(r), reg(r)),
                2 => format!("NOT {}, {}", reg(r), reg(r)),
                3 => "HALT".to_string(),
                4 => format!("TRAP x{:02X}", 0x20 + r.below(6)),
                5 => format!("LDR {}, {}, #{}", reg(r), reg(r), r.range(-32, 31)),
                6 | 7 if !local.is_empty() => format!("{} {}", r.pick(&["BR", "BRnz", "BRp", "JSR"]), r.pick(&local)),
                8 if !local.is_empty() => format!("{} {}, {}", r.pick(&["LD", "ST", "LEA", "LDI"]), reg(r), r.pick(&local)),
                9 => format!(".fill x{:04X}", r.u16()),
                10 if !local.is_empty() => format!(".fill {}", r.pick(&local)),
                11 | 12 if use_ext => format!(".fill {ext_global}"),
                13 => format!(".blkw {}", 1 + r.below(5)),
                14 => format!(".stringz \"{}\"", str_lit(r)),
                _ => format!("ADD {}, {}, {}", reg(r), reg(r), reg(r)),
            };
            line.push_str(&stmt);
            if r.chance(1, 3) { line.push_str(&format!(" ;{}", hostile(r, 6))); } else if r.chance(1, 6) { line.push_str("  \t"); }
            out.push(line);
        }
        out.push(format!(".end{}", if r.chance(1, 5) { " ; done" } else { "" }));
    }
    if use_ext && !ext_declared && r.chance(4, 5) { out.push(format!(".external {ext_global}")); }
    junk(r, &mut out);
    let mut src = out.join(nl);
    match r.below(4) { 0 => {} 1 => src.push_str(nl), 2 => { src.push_str(nl); src.push_str("  ") } _ => { src.push_str(nl); src.push_str(nl) } }
    Prog { src }
}

fn try_assemble(src: &str, debug: bool) -> Option<ObjectFile> {
    let ast = catch(|| parse_ast(src))?.ok()?;
    catch(|| if debug { assemble_debug(ast, src) } else { assemble(ast) })?.ok()
}

// ------------------------------------------------------------------------------------------
// valid objects: correspondence + round-trip oracles (C17, C18)

fn check_valid(ctx: &Ctx, shard: usize, o: &ObjectFile, what: &str) { check_valid_opt(ctx, shard, o, what, true) }
/// `record = false`: round-trip oracles only, no correspondence cases (giant blocks: the extracted model is too slow on them)
fn check_valid_opt(ctx: &Ctx, shard: usize, o: &ObjectFile, what: &str, record: bool) {
    let t = t_obj(o);
    let tord = t_obj_ord(o);
    if record { ctx.case_to(shard, "objbin.inv", &t, &I(1)); }
    if record { ctx.case_to(shard, "objtext.inv", &t, &I(1)); }
    // ---- binary
    match catch(|| BinaryFormat::serialize(o)) {
        None => fail(ctx, "C17", "bin_write_panics", format!("BinaryFormat::serialize panics on a {what} object"), format!("objbin.ser\t{tord}")),
        Some(bs) => {
            if record { ctx.case_to(shard, "objbin.ser", &tord, &bytes(&bs)); }
            let back = catch(|| BinaryFormat::deserialize(&bs));
            if record { ctx.case_to(shard, "objbin.deser", &bytes(&bs), &t_read(&back)); }
            let replay = format!("objbin.ser\t{tord}");
            match back {
                None => fail(ctx, "C17", "bin_read_panics", format!("BinaryFormat::deserialize panics on the serialization of a {what} object"), replay),
                Some(None) => fail(ctx, "C17", "bin_roundtrip_rejected", format!("BinaryFormat::deserialize rejects the serialization of a {what} object"), replay),
                Some(Some(o2)) => if o2 != *o {
                    fail(ctx, "C17", "bin_roundtrip_differs", format!("binary round trip of a {what} object gives a different object: {}", diff(o, &o2)), replay)
                },
            }
        }
    }
    // ---- text
    match catch(|| TextFormat::serialize(o)) {
        None => fail(ctx, "C18", "text_write_panics", format!("TextFormat::serialize panics on a {what} object"), format!("objtext.ser\t{t}")),
        Some(s) => {
            if record { ctx.case_to(shard, "objtext.ser", &t, &chars(&s)); }
            let back = catch(|| TextFormat::deserialize(&s));
            if record { ctx.case_to(shard, "objtext.deser", &chars(&s), &t_read(&back)); }
            let replay = format!("objtext.ser\t{t}");
            match back {
                None => fail(ctx, "C18", "text_read_panics", format!("TextFormat::deserialize panics on the serialization of a {what} object"), replay),
                Some(None) => fail(ctx, "C18", "text_roundtrip_rejected", format!("TextFormat::deserialize rejects the serialization of a {what} object"), replay),
                Some(Some(o2)) => if o2 != *o {
                    fail(ctx, "C18", "text_roundtrip_differs", format!("text round trip of a {what} object gives a different object: {}", diff(o, &o2)), replay)
                },
            }
        }
    }
}
fn diff(a: &ObjectFile, b: &ObjectFile) -> String {
    let (ta, tb) = (t_obj(a), t_obj(b));
    let (la, lb) = (ta.as_l().unwrap(), tb.as_l().unwrap());
    if la[0] != lb[0] { return "memory image".into(); }
    match (la[1].as_l().unwrap().first(), lb[1].as_l().unwrap().first()) {
        (None, None) => "?".into(),
        (Some(_), None) | (None, Some(_)) => "symbol table present / absent".into(),
        (Some(x), Some(y)) => {
            let (x, y) = (x.as_l().unwrap(), y.as_l().unwrap());
            if x[0] != y[0] { "labels".into() } else if x[1] != y[1] { "relocation entries".into() } else { "line map / source".into() }
        }
    }
}

// ------------------------------------------------------------------------------------------
// spec of an object file, mutated, then written by our own (hostile) printers

#[derive(Clone, Default)]
struct Spec {
    blocks: Vec<(u16, Vec<Option<u16>>)>,
    labels: Vec<(Vec<u8>, u16, u64, u8)>,
    rels: Vec<(u16, Vec<u8>)>,
    lines: Vec<(u64, Vec<u16>)>,
    src: Option<Vec<u8>>,
}
fn spec_of(o: &ObjectFile) -> Spec {
    let mut s = Spec { blocks: o.verif_blocks(), ..Default::default() };
    if let Some(st) = o.symbol_table() {
        s.labels = st.verif_labels().into_iter().map(|(n, a, p, e)| (n.into_bytes(), a, p as u64, e as u8)).collect();
        s.labels.sort();
        s.rels = st.verif_relocs().into_iter().map(|(a, n)| (a, n.into_bytes())).collect();
        s.rels.sort();
        if let Some(l) = st.verif_line_blocks() { s.lines = l.into_iter().map(|(k, v)| (k as u64, v)).collect(); }
        s.src = st.source_info().map(|x| x.source().as_bytes().to_vec());
    }
    s
}
const ADDRS: &[u16] = &[0, 1, 0x2FFF, 0x3000, 0x3001, 0x4000, 0x4001, 0xFDFF, 0xFE00, 0xFFF0, 0xFFFE, 0xFFFF];
const BIG: &[u64] = &[
    u64::MAX, u64::MAX - 1, u64::MAX - 2, 1 << 63, (1 << 63) - 1, (1 << 63) - 2, (1 << 63) + 1, (1 << 62), u32::MAX as u64,
    (u32::MAX as u64) + 1, 0, 1, 2,
];
const NAMES: &[&str] = &["FOO", "BAR", "G0", "G1", "G2", "X", "", " ", "A B", "A | B", "=X", "#X", ".X", "é", "LABEL", "a\nb", "\u{85}Q"];
fn addr(r: &mut Rng) -> u16 { if r.chance(1, 2) { *r.pick(ADDRS) } else { r.u16() } }
fn big(r: &mut Rng) -> u64 { match r.below(4) { 0 => r.below(64), 1 => r.next(), _ => *r.pick(BIG) } }
fn name(r: &mut Rng) -> Vec<u8> {
    match r.below(8) {
        0 => vec![0xFF, 0x41],
        1 => vec![0xC3],
        2 => hostile(r, 3).into_bytes(),
        _ => r.pick(NAMES).as_bytes().to_vec(),
    }
}
fn random_spec(r: &mut Rng) -> Spec {
    let mut s = Spec::default();
    for _ in 0..r.below(4) {
        let n = match r.below(12) { 0 => 0, 1 => 300, _ => r.below(6) } as usize;
        let ws = (0..n).map(|_| if r.chance(1, 4) { None } else { Some(r.u16()) }).collect();
        s.blocks.push((addr(r), ws));
    }
    for _ in 0..r.below(4) { s.labels.push((name(r), addr(r), big(r), *r.pick(&[0u8, 0, 1, 1, 2, 255]))); }
    for _ in 0..r.below(3) { s.rels.push((addr(r), name(r))); }
    if r.chance(1, 2) {
        for _ in 0..r.below(3) { let n = r.below(4) as usize; let a0 = addr(r); s.lines.push((big(r), (0..n).map(|j| a0.wrapping_add(j as u16)).collect())); }
        s.src = Some(hostile(r, 10).into_bytes());
    }
    s
}
fn mutate_spec(s: &mut Spec, r: &mut Rng) {
    for _ in 0..1 + r.below(3) {
        match r.below(22) {
            0 => if !s.blocks.is_empty() { let k = r.below(s.blocks.len() as u64) as usize; s.blocks[k].0 = addr(r); },
            1 => if !s.blocks.is_empty() { let k = r.below(s.blocks.len() as u64) as usize; let a = s.blocks[r.below(s.blocks.len() as u64) as usize].0; s.blocks[k].0 = a.wrapping_add(r.below(3) as u16); },
            2 => if !s.blocks.is_empty() { let k = r.below(s.blocks.len() as u64) as usize; let n = r.below(8) as usize; s.blocks[k].1.truncate(n); },
            3 => if !s.blocks.is_empty() { let k = r.below(s.blocks.len() as u64) as usize; for _ in 0..r.below(40) { s.blocks[k].1.push(if r.chance(1, 3) { None } else { Some(r.u16()) }); } },
            4 => { let n = r.below(5) as usize; s.blocks.push((addr(r), vec![Some(7); n])); },
            5 => if !s.labels.is_empty() { let k = r.below(s.labels.len() as u64) as usize; s.labels[k].2 = big(r); },
            6 => if !s.labels.is_empty() { let k = r.below(s.labels.len() as u64) as usize; s.labels[k].0 = name(r); },
            7 => if !s.labels.is_empty() { let k = r.below(s.labels.len() as u64) as usize; s.labels[k].3 = *r.pick(&[0u8, 1, 2, 255]); s.labels[k].1 = addr(r); },
            8 => s.labels.push((name(r), addr(r), big(r), r.below(2) as u8)),
            9 => if !s.labels.is_empty() { let k = r.below(s.labels.len() as u64) as usize; let mut l = s.labels[k].clone(); l.1 = addr(r); l.3 ^= 1; s.labels.push(l); },
            10 => if !s.rels.is_empty() { let k = r.below(s.rels.len() as u64) as usize; s.rels[k].0 = addr(r); },
            11 => { let n = if s.labels.is_empty() || r.chance(1, 3) { name(r) } else { s.labels[r.below(s.labels.len() as u64) as usize].0.clone() }; s.rels.push((addr(r), n)); },
            12 => if let Some((a, ws)) = s.blocks.first().cloned() { // relocation just inside / outside a block
                let at = *r.pick(&[a.wrapping_sub(1), a, a.wrapping_add(ws.len() as u16), a.wrapping_add(ws.len() as u16).wrapping_sub(1)]);
                let n = if s.labels.is_empty() { name(r) } else { s.labels[r.below(s.labels.len() as u64) as usize].0.clone() };
                s.rels.push((at, n));
            },
            13 => if !s.lines.is_empty() { let k = r.below(s.lines.len() as u64) as usize; s.lines[k].0 = big(r); },
            14 => if !s.lines.is_empty() { let k = r.below(s.lines.len() as u64) as usize; let n = s.lines[k].1.len() as u64; s.lines[k].0 = *r.pick(&[u64::MAX - n, (u64::MAX - n).wrapping_add(1), (1 << 63) - n, (1 << 63) - 1 - n, (1 << 63) - 1]); },
            15 => if !s.lines.is_empty() { let k = r.below(s.lines.len() as u64) as usize; if r.chance(1, 2) { s.lines[k].1.reverse() } else if let Some(x) = s.lines[k].1.first().copied() { s.lines[k].1.push(x) } },
            16 => { let n = r.below(4) as usize; let a0 = addr(r); let at = if s.lines.is_empty() || r.chance(1, 2) { big(r) } else { s.lines[r.below(s.lines.len() as u64) as usize].0.wrapping_add(r.below(3)) }; s.lines.push((at, (0..n).map(|j| a0.wrapping_add(j as u16)).collect())); if s.src.is_none() && r.chance(1, 2) { s.src = Some(vec![]) } },
            17 => s.src = match r.below(4) { 0 => None, 1 => Some(vec![0xE2, 0x82]), 2 => Some(hostile(r, 12).into_bytes()), _ => Some(b"a\nb\n\nc".to_vec()) },
            18 => if !s.labels.is_empty() { let k = r.below(s.labels.len() as u64) as usize; s.labels.remove(k); },
            19 => { s.labels.clear(); if r.chance(1, 2) { s.src = None; s.lines.clear(); } },
            20 => if let Some(l) = s.labels.first().cloned() { s.labels.push((l.0, l.1.wrapping_add(1), l.2, l.3)) },
            _ => if !s.blocks.is_empty() { let k = r.below(s.blocks.len() as u64) as usize; let b = s.blocks[k].clone(); s.blocks.push(b); },
        }
    }
}

/// our own binary writer; `lie` perturbs length fields / ids / order
fn spec_to_bin(s: &Spec, r: &mut Rng, lie: bool) -> Vec<u8> {
    let mut chunks: Vec<Vec<u8>> = vec![];
    let mut lens = |r: &mut Rng, n: u64| -> u64 { if lie && r.chance(1, 12) { *r.pick(&[n.wrapping_add(1), n.wrapping_sub(1), 0, u64::MAX, 1 << 63, n + 65536]) } else { n } };
    for (a, ws) in &s.blocks {
        let mut c = vec![0u8];
        c.extend(a.to_le_bytes());
        c.extend((lens(r, ws.len() as u64) as u16).to_le_bytes());
        for w in ws { match w { Some(v) => { c.push(if lie && r.chance(1, 20) { r.next() as u8 } else { 0xFF }); c.extend(v.to_le_bytes()); } None => c.extend(if lie && r.chance(1, 20) { [0, 1, 2] } else { [0, 0, 0] }) } }
        chunks.push(c);
    }
    for (n, a, p, e) in &s.labels {
        let mut c = vec![1u8];
        c.extend(a.to_le_bytes()); c.push(*e); c.extend(p.to_le_bytes()); c.extend(lens(r, n.len() as u64).to_le_bytes()); c.extend(n);
        chunks.push(c);
    }
    for (l, d) in &s.lines {
        let mut c = vec![2u8];
        c.extend(l.to_le_bytes()); c.extend((lens(r, d.len() as u64) as u16).to_le_bytes());
        for w in d { c.extend(w.to_le_bytes()); }
        chunks.push(c);
    }
    if let Some(src) = &s.src {
        let mut c = vec![3u8];
        c.extend(lens(r, src.len() as u64).to_le_bytes()); c.extend(src);
        chunks.push(c);
    }
    for (a, n) in &s.rels {
        let mut c = vec![4u8];
        c.extend(a.to_le_bytes()); c.extend(lens(r, n.len() as u64).to_le_bytes()); c.extend(n);
        chunks.push(c);
    }
    if lie {
        match r.below(10) {
            0 => if chunks.len() > 1 { let (x, y) = (r.below(chunks.len() as u64) as usize, r.below(chunks.len() as u64) as usize); chunks.swap(x, y); },
            1 => if !chunks.is_empty() { let k = r.below(chunks.len() as u64) as usize; let c = chunks[k].clone(); chunks.push(c); },
            2 => if !chunks.is_empty() { let k = r.below(chunks.len() as u64) as usize; chunks[k][0] = r.below(8) as u8; },
            3 => chunks.push((0..r.below(12)).map(|_| r.next() as u8).collect()),
            _ => {}
        }
    }
    let mut out = b"obj\x21\x10\x00\x01".to_vec();
    for c in chunks { out.extend(c); }
    if lie {
        match r.below(12) {
            0 => { let n = r.below(out.len() as u64 + 1) as usize; out.truncate(n); }
            1 => if !out.is_empty() { let k = r.below(out.len() as u64) as usize; out[k] = r.next() as u8; },
            2 => { let k = r.below(7) as usize; out[k] ^= 1 << r.below(8); }
            _ => {}
        }
    }
    out
}

fn lossy(b: &[u8]) -> String { String::from_utf8_lossy(b).into_owned() }
fn hexs(r: &mut Rng, v: u16, lie: bool) -> String {
    if !lie || r.chance(5, 6) { return format!("{v:04X}"); }
    match r.below(7) { 0 => format!("{v:04x}"), 1 => format!("{v:X}"), 2 => format!("+{:03X}", v & 0xFFF), 3 => format!("{v:05X}"), 4 => format!("-{:03X}", v & 0xFFF), 5 => "é12".into(), _ => format!("x{:03X}", v & 0xFFF) }
}
fn decs(r: &mut Rng, v: u64, lie: bool) -> String {
    if !lie || r.chance(5, 6) { return v.to_string(); }
    match r.below(7) { 0 => format!("+{v}"), 1 => format!("00{v}"), 2 => format!("-{v}"), 3 => format!("{v}0000000000000000000000"), 4 => "18446744073709551616".into(), 5 => "+".into(), _ => format!("{v} ") }
}
fn escape_some(r: &mut Rng, s: &str, lie: bool) -> String {
    let mut e: String = s.escape_default().collect();
    if lie && r.chance(1, 4) {
        const X: &[&str] = &["\\", "\\u{D800}", "\\u{110000}", "\\u{}", "\\u{41", "\\u0041", "\\u00", "\\x41", "\\x4", "\\xZZ", "\\101", "\\7", "\\777", "\\8", "\\q", "\\b\\f\\/", "\\u{+41}", "\\u{-41}", "\\x+1", "\\u{0000000041}", "\\u{fffffffff}", "\\1é", "\\u{é}", "\\0", "\\400", "\\47x"];
        let at = r.below(e.len() as u64 + 1) as usize;
        if e.is_char_boundary(at) { e.insert_str(at, *r.pick(X)); } else { e.push_str(*r.pick(X)); }
    }
    e
}
/// our own text writer (same layout as the crate's, plus perturbations when `lie`)
fn spec_to_text(s: &Spec, r: &mut Rng, lie: bool) -> String {
    let mut out: Vec<String> = vec![];
    let div = |r: &mut Rng| -> &'static str { if lie && r.chance(1, 15) { *r.pick(&[" |", "| ", "  |  ", "|", " | | "]) } else { " | " } };
    out.push(if lie && r.chance(1, 25) { "LC-3 OBJ FILE ".into() } else { "LC-3 OBJ FILE".into() });
    out.push(String::new());
    let mut sections: Vec<Vec<String>> = vec![];
    let mut t = vec![".TEXT".to_string()];
    for (a, ws) in &s.blocks {
        t.push(hexs(r, *a, lie));
        let n = if lie && r.chance(1, 10) { *r.pick(&[ws.len() as u64 + 1, (ws.len() as u64).wrapping_sub(1), 65535, 65536, 0]) } else { ws.len() as u64 };
        t.push(decs(r, n, lie));
        for w in ws { t.push(match w { Some(v) => hexs(r, *v, lie), None => if lie && r.chance(1, 20) { "???".into() } else { "????".into() } }); }
    }
    sections.push(t);
    if !s.labels.is_empty() || s.src.is_some() || !s.rels.is_empty() {
        let mut t = vec![".SYMBOL".to_string()];
        if !s.labels.is_empty() {
            t.push(if lie && r.chance(1, 15) { "ADDR | EXT".into() } else { "ADDR | EXT | LABEL".into() });
            for (n, a, _, e) in &s.labels { t.push(format!("{}{}{:>3}{}{}", hexs(r, *a, lie), div(r), decs(r, *e as u64, lie), div(r), lossy(n))); }
        }
        sections.push(t);
        let mut t = vec![".LINKER_INFO".to_string()];
        if !s.rels.is_empty() {
            t.push("ADDR | LABEL".into());
            for (a, n) in &s.rels { t.push(format!("{}{}{}", hexs(r, *a, lie), div(r), lossy(n))); }
        }
        sections.push(t);
        let mut t = vec![".DEBUG".to_string(), "# DEBUG SYMBOLS FOR LC3TOOLS".to_string()];
        if !s.labels.is_empty() {
            t.push("LABEL | INDEX".into());
            for (n, _, p, _) in &s.labels { t.push(format!("{:8}{}{:>5}", lossy(n), div(r), decs(r, *p, lie))); }
        }
        let ndiv = if lie { *r.pick(&[2usize, 2, 2, 2, 1, 0, 3]) } else if s.src.is_some() { 2 } else { 1 };
        if ndiv > 0 { t.push("====================".into()); }
        if let Some(src) = &s.src {
            let src = lossy(src);
            let mut rows: Vec<(Option<u16>, String)> = src.split_inclusive('\n').map(|l| (None, l.to_string())).collect();
            if rows.is_empty() || src.ends_with('\n') { rows.push((None, String::new())); }
            for (l0, d) in &s.lines { for (j, a) in d.iter().enumerate() {
                let at = l0.wrapping_add(j as u64);
                if at < 400 { while rows.len() <= at as usize { rows.push((None, String::new())); } rows[at as usize].0 = Some(*a); }
            } }
            t.push(if lie && r.chance(1, 15) { "LINE | ADDR".into() } else { "LINE | ADDR | SOURCE".into() });
            for (k, (a, l)) in rows.iter().enumerate() {
                let ln = if lie && r.chance(1, 12) { big(r) } else { k as u64 };
                t.push(format!("{:>4}{}{}{}{}", decs(r, ln, lie), div(r), match a { Some(v) => hexs(r, *v, lie), None => "????".into() }, div(r), escape_some(r, l, lie)));
            }
        }
        for _ in 1..ndiv { t.push(if lie && r.chance(1, 8) { "=".into() } else { "====================".into() }); }
        sections.push(t);
    }
    if lie {
        match r.below(14) {
            0 => if sections.len() > 1 { let (x, y) = (r.below(sections.len() as u64) as usize, r.below(sections.len() as u64) as usize); sections.swap(x, y); },
            1 => { let k = r.below(sections.len() as u64) as usize; let c = sections[k].clone(); sections.push(c); },
            2 => { let k = r.below(sections.len() as u64) as usize; sections[k][0] = r.pick(&[".text", ".TEXT ", ".", ".DATA", "TEXT", ".DEBUG"]).to_string(); },
            3 => { let k = r.below(sections.len() as u64) as usize; sections.remove(k); },
            _ => {}
        }
    }
    for sct in sections { out.extend(sct); out.push(String::new()); }
    if lie {
        for _ in 0..r.below(3) {
            if out.is_empty() { break; }
            let k = r.below(out.len() as u64) as usize;
            match r.below(10) {
                0 => { out.remove(k); }
                1 => { let l = out[k].clone(); out.insert(k, l); }
                2 => out.insert(k, r.pick(&["# c", "   ", "\u{a0}", "=", ".", "x", "\t#", "", "\u{2028}"]).to_string()),
                3 => { let j = r.below(out.len() as u64) as usize; out.swap(k, j); }
                4 => out[k] = format!(" {}", out[k]),
                5 => out[k] = format!("{}\r", out[k]),
                6 => out[k] = hostile(r, 6),
                _ => {}
            }
        }
    }
    let nl = if lie && r.chance(1, 6) { "\r\n" } else { "\n" };
    let mut s = out.join(nl);
    if lie { match r.below(6) { 0 => s.insert_str(0, " \n\u{2003}"), 1 => s.push_str("\u{85}  "), 2 => s = s.trim_end().to_string(), 3 => s.push('\r'), _ => {} } }
    s
}

fn random_text(r: &mut Rng) -> String {
    const T: &[&str] = &["LC-3 OBJ FILE", "\n", "\n", "\n", ".TEXT", ".SYMBOL", ".LINKER_INFO", ".DEBUG", " | ", "3000", "1", "2", "0", "????", "====", "=", "#", ".", "ADDR", "EXT", "LABEL", "INDEX", "LINE", "SOURCE", " ", "\r\n", "\\", "\\u{41}", "FFFF", "x", "é", "\t", "65535", "+", "-"];
    let mut s = String::new();
    if r.chance(3, 4) { s.push_str("LC-3 OBJ FILE\n"); }
    for _ in 0..r.below(40) { s.push_str(*r.pick(T)); }
    s
}

// ------------------------------------------------------------------------------------------
// untrusted input: read, and everything after (C19)

thread_local! { static SIM: std::cell::RefCell<Option<Simulator>> = const { std::cell::RefCell::new(None) }; }
fn load(o: &ObjectFile) -> Option<bool> {
    SIM.with(|s| {
        let mut s = s.borrow_mut();
        if s.is_none() { *s = Some(Simulator::new(Default::default())); }
        let r = catch(|| s.as_mut().unwrap().load_obj_file(o).is_ok());
        if r.is_none() { *s = None; }
        r
    })
}

fn after_read(ctx: &Ctx, shard: usize, o: &ObjectFile, partners: &[ObjectFile], r: &mut Rng, origin: &str) {
    let t = t_obj(o);
    let tord = t_obj_ord(o);
    // re-serialize
    let bs = catch(|| BinaryFormat::serialize(o));
    match &bs {
        Some(bs) => ctx.case_to(shard, "objbin.ser", &tord, &bytes(bs)),
        None => fail(ctx, "C19", "reserialize_panics", format!("BinaryFormat::serialize panics on an object read from {origin}"), format!("objbin.ser\t{tord}")),
    }
    let ts = catch(|| TextFormat::serialize(o));
    match &ts {
        Some(s) => ctx.case_to(shard, "objtext.ser", &t, &chars(s)),
        None => fail(ctx, "C19", "reserialize_panics", format!("TextFormat::serialize panics on an object read from {origin}"), format!("objtext.ser\t{t}")),
    }
    // link with assembled files, both ways
    let all = origin == "boundary";
    for pi in 0..(if all { partners.len() } else { 2.min(partners.len()) }) {
        let p = if all { &partners[pi] } else { r.pick(partners) };
        let tp = t_obj(p);
        for flip in [false, true] {
            let (x, y, tx, ty) = if flip { (p, o, &tp, &t) } else { (o, p, &t, &tp) };
            let res = catch(|| ObjectFile::link(x.clone(), y.clone()).is_ok());
            let inp = L(vec![tx.clone(), ty.clone()]);
            ctx.case_to(shard, "objpipe.link", &inp, &t_done(&res));
            match res {
                None => fail(ctx, "C19", "link_panics", format!("ObjectFile::link panics ({}) with an object read from {origin}", crate::LAST_PANIC.with(|p| p.borrow().clone())), format!("objpipe.link\t{inp}")),
                Some(true) => ctx.stat("pipeline.link_ok", 1),
                Some(false) => ctx.stat("pipeline.link_err", 1),
            }
        }
    }
    // load
    let res = load(o);
    ctx.case_to(shard, "objpipe.load", &t, &t_done(&res));
    match res {
        None => fail(ctx, "C19", "load_panics", format!("Simulator::load_obj_file panics ({}) on an object read from {origin}", crate::LAST_PANIC.with(|p| p.borrow().clone())), format!("objpipe.load\t{t}")),
        Some(true) => ctx.stat("pipeline.load_ok", 1),
        Some(false) => ctx.stat("pipeline.load_err", 1),
    }
}

fn read_bin(ctx: &Ctx, shard: usize, bs: &[u8], partners: &[ObjectFile], r: &mut Rng, origin: &str) {
    let inp = bytes(bs);
    ctx.attempting(&format!("objbin.deser\t{inp}"));
    let res = catch(|| BinaryFormat::deserialize(bs));
    ctx.case_to(shard, "objbin.deser", &inp, &t_read(&res));
    match res {
        None => fail(ctx, "C19", "bin_read_panics", format!("BinaryFormat::deserialize panics ({}) on {origin}", crate::LAST_PANIC.with(|p| p.borrow().clone())), format!("objbin.deser\t{inp}")),
        Some(None) => ctx.stat(&format!("read.bin.{origin}.rejected"), 1),
        Some(Some(o)) => { ctx.stat(&format!("read.bin.{origin}.accepted"), 1); after_read(ctx, shard, &o, partners, r, origin); }
    }
}
fn read_text(ctx: &Ctx, shard: usize, s: &str, partners: &[ObjectFile], r: &mut Rng, origin: &str) {
    let inp = chars(s);
    ctx.attempting(&format!("objtext.deser\t{inp}"));
    let res = catch(|| TextFormat::deserialize(s));
    ctx.case_to(shard, "objtext.deser", &inp, &t_read(&res));
    match res {
        None => fail(ctx, "C19", "text_read_panics", format!("TextFormat::deserialize panics ({}) on {origin}", crate::LAST_PANIC.with(|p| p.borrow().clone())), format!("objtext.deser\t{inp}")),
        Some(None) => ctx.stat(&format!("read.text.{origin}.rejected"), 1),
        Some(Some(o)) => { ctx.stat(&format!("read.text.{origin}.accepted"), 1); after_read(ctx, shard, &o, partners, r, origin); }
    }
}

/// fixed boundary inputs (the witnesses of DESIGN §9 #6/#7 and neighbours), always run
fn boundary(ctx: &Ctx, partners: &[ObjectFile], r: &mut Rng) {
    let hdr = b"obj\x21\x10\x00\x01";
    let mk = |chunks: &[Vec<u8>]| { let mut v = hdr.to_vec(); for c in chunks { v.extend(c); } v };
    let lines = |l: u64, d: &[u16]| { let mut c = vec![2u8]; c.extend(l.to_le_bytes()); c.extend((d.len() as u16).to_le_bytes()); for w in d { c.extend(w.to_le_bytes()); } c };
    let src = |s: &[u8]| { let mut c = vec![3u8]; c.extend((s.len() as u64).to_le_bytes()); c.extend(s); c };
    let block = |a: u16, n: u16| { let mut c = vec![0u8]; c.extend(a.to_le_bytes()); c.extend(n.to_le_bytes()); for _ in 0..n { c.extend([0xFF, 1, 0]); } c };
    let label = |n: &[u8], a: u16, e: u8, p: u64| { let mut c = vec![1u8]; c.extend(a.to_le_bytes()); c.push(e); c.extend(p.to_le_bytes()); c.extend((n.len() as u64).to_le_bytes()); c.extend(n); c };
    let rel = |a: u16, n: &[u8]| { let mut c = vec![4u8]; c.extend(a.to_le_bytes()); c.extend((n.len() as u64).to_le_bytes()); c.extend(n); c };
    let m = u64::MAX; let im = (1u64 << 63) - 1;
    let bins: Vec<Vec<u8>> = vec![
        vec![], hdr.to_vec(), hdr[..6].to_vec(),
        mk(&[lines(m, &[0x3000]), src(b"")]), mk(&[lines(m, &[0x3000, 0x3001]), src(b"")]),
        mk(&[lines(m - 1, &[0x3000, 0x3001]), lines(m, &[0x3000, 0x3001])]),
        mk(&[lines(im, &[0x3000]), src(b"x")]), mk(&[lines(im - 1, &[0x3000]), src(b"x")]), mk(&[lines(im - 1, &[0x3000, 0x3001]), src(b"x")]),
        mk(&[lines(im + 1, &[]), src(b"x")]), mk(&[lines(im, &[]), src(b"x")]),
        mk(&[lines(5, &[1, 2, 3]), lines(7, &[9])]), mk(&[lines(5, &[1, 2, 3]), lines(8, &[9])]), mk(&[lines(5, &[2, 2])]), mk(&[lines(5, &[3, 2])]),
        mk(&[block(0xFFFF, 1)]), mk(&[block(0xFFFF, 2)]), mk(&[block(0xFFF0, 0x20), block(0, 4)]), mk(&[block(0, 0xFFFF)]), mk(&[block(1, 0xFFFF)]),
        mk(&[block(0x3000, 2), block(0x3001, 2)]), mk(&[block(0x3000, 2), block(0x3000, 3)]), mk(&[block(0x4000, 0), block(0x4001, 1)]),
        mk(&[label(b"FOO", 5, 0, m), src(b"")]), mk(&[label(b"FOO", 5, 0, m)]), mk(&[label(b"FOO", 5, 0, m - 2)]), mk(&[label(b"FOO", 5, 0, m - 3)]),
        mk(&[block(0x3000, 1), label(b"FOO", 0, 1, 0), rel(0x3000, b"FOO")]), mk(&[block(0x3000, 1), label(b"FOO", 0, 1, 0), rel(0x3001, b"FOO")]),
        mk(&[block(0x3000, 1), label(b"FOO", 0, 1, 0), rel(0x2FFF, b"FOO")]), mk(&[label(b"FOO", 0, 1, 0), rel(0x5000, b"FOO")]),
        mk(&[block(0x3000, 4), block(0x3002, 0), label(b"FOO", 0, 1, 0), rel(0x3003, b"FOO")]),
        mk(&[block(0xFFFF, 3), label(b"FOO", 0, 1, 0), rel(0, b"FOO")]), mk(&[rel(0x5000, b"FOO")]),
        // an empty block strictly inside a partner's block, at or below one of its relocation entries, in a file that
        // defines the label the partner declares external (partner 1: block x5000..x5004, FOO at x5001/x5002;
        // partner 5: block x0000..x0002, G0 at x0000, BAR at x0001)
        mk(&[block(0x5001, 0), block(0x6100, 1), label(b"FOO", 0x6100, 0, 0)]), mk(&[block(0x5002, 0), block(0x6100, 1), label(b"FOO", 0x6100, 0, 0)]),
        mk(&[block(0x5000, 0), block(0x6100, 1), label(b"FOO", 0x6100, 0, 0)]), mk(&[block(0x0001, 0), block(0x6100, 2), label(b"BAR", 0x6100, 0, 0), label(b"G0", 0x6101, 0, 0)]),
        mk(&[block(0x0000, 0), block(0x6100, 2), label(b"BAR", 0x6100, 0, 0), label(b"G0", 0x6101, 0, 0)]), mk(&[block(0x5003, 0), label(b"FOO", 0x5003, 0, 0)]),
        mk(&[label(b"\xff", 0, 0, 0)]), mk(&[label(b"", 0, 0, 0)]), mk(&[src(b"\xe2\x82")]), mk(&[src(b"a"), src(b"b\n")]),
        mk(&[vec![1u8, 0, 0, 0, 0, 0, 0, 0, 0, 0, 0, 0, 255, 255, 255, 255, 255, 255, 255, 255]]), mk(&[vec![5u8]]), mk(&[vec![0u8, 0, 0, 1]]),
    ];
    for b in &bins { read_bin(ctx, 0, b, partners, r, "boundary"); }
    let texts: &[&str] = &[
        "", "LC-3 OBJ FILE", "LC-3 OBJ FILE\n.DEBUG\n=====\n", "LC-3 OBJ FILE\n.DEBUG\n=====\n=====\n", "LC-3 OBJ FILE\n.DEBUG\n",
        "LC-3 OBJ FILE\n.DEBUG\nLABEL | INDEX\nFOO | 3\n=\n", "LC-3 OBJ FILE\n.DEBUG\nLABEL | INDEX\nFOO | 3\n", "LC-3 OBJ FILE\n.DEBUG\n=\nLINE | ADDR | SOURCE\n",
        "LC-3 OBJ FILE\n.DEBUG\n=\n=\n=\n", "LC-3 OBJ FILE\n.DEBUG\n=\nLINE | ADDR | SOURCE\n0 | 3000 | a\\n\n1 | ???? | b\n=\n",
        "LC-3 OBJ FILE\n.DEBUG\n=\nLINE | ADDR | SOURCE\n0 | 3000 | a\n=\n", "LC-3 OBJ FILE\n.DEBUG\n=\nLINE | ADDR | SOURCE\n0 | 3000\n1 | ????\n=\n",
        "LC-3 OBJ FILE\n.DEBUG\n=\nLINE | ADDR | SOURCE\n0 | ???? | \\u{41}\\x42\\103\\u0044\\b\\/\n=\n.DEBUG\n=\nLINE | ADDR | SOURCE\n0 | ???? | \\\\n\n=\n",
        "LC-3 OBJ FILE\n.TEXT\n3000\n1\n0000\n.SYMBOL\nADDR | EXT | LABEL\n0000 | 1 | FOO\n.LINKER_INFO\nADDR | LABEL\n5000 | FOO\n",
        "LC-3 OBJ FILE\n.TEXT\n3000\n1\n0000\n.SYMBOL\nADDR | EXT | LABEL\n0000 | 1 | FOO\n.LINKER_INFO\nADDR | LABEL\n3000 | FOO\n",
        "LC-3 OBJ FILE\n.TEXT\nFFFF\n2\n0000\n0000\n", "LC-3 OBJ FILE\n.TEXT\nFFFF\n1\n0000\n", "LC-3 OBJ FILE\n.TEXT\n3000\n1\n0000\n3000\n1\n0000\n", "LC-3 OBJ FILE\n.TEXT\n3000\n2\n0000\n",
        "LC-3 OBJ FILE\n.TEXT\n+300\n+1\n+000\n", "LC-3 OBJ FILE\n.TEXT\n3000\n65536\n", "LC-3 OBJ FILE\n.TEXT\n3000\n0\n.TEXT\n3000\n0\n", "LC-3 OBJ FILE\n.TEXT\n3000\n",
        "LC-3 OBJ FILE\n.SYMBOL\nADDR | EXT | LABEL\n0005 | 0 | FOO\n.DEBUG\nLABEL | INDEX\nFOO | 18446744073709551615\n=====\n=====\n",
        "LC-3 OBJ FILE\n.SYMBOL\nADDR | EXT | LABEL\n0005 | 0 | FOO\n.DEBUG\nLABEL | INDEX\nFOO | 18446744073709551616\n=====\n=====\n",
        "LC-3 OBJ FILE\n.SYMBOL\nADDR | EXT | LABEL\n0005 | 256 | FOO\n", "LC-3 OBJ FILE\n.SYMBOL\nADDR | EXT | LABEL\n0005 | 2 | FOO | BAR\n0006\n",
        "LC-3 OBJ FILE\n.SYMBOL\n ADDR |EXT | LABEL\n", "LC-3 OBJ FILE\n.SYMBOL\nADDR | EXT | LABEL | X\n", "LC-3 OBJ FILE\nx\n", "LC-3 OBJ FILE\n.FOO\n", "  \n\u{a0}LC-3 OBJ FILE\r\n.TEXT\r\n3000\r\n1\r\n????\r",
        "LC-3 OBJ FILE\n# c\n\n   \n.TEXT\n#.SYMBOL\n3000\n 1\n", "LC-3 OBJ FILE\n.TEXT\n3000\n1\n ????\n", "LC-3 OBJ FILE \n", "#\nLC-3 OBJ FILE\n", "LC-3 OBJ FILE\n.DEBUG\n=\nLINE | ADDR | SOURCE\n1 | 3000 | a\n=\n",
        "LC-3 OBJ FILE\n.DEBUG\n=\nLINE | ADDR | SOURCE\n+0 | 3000 | a\\n\n 1  |  3001  | b\\n\n2 | ???? |  | x | \n=\n",
    ];
    for t in texts { read_text(ctx, 0, t, partners, r, "boundary"); }
}

pub fn run(ctx: &Ctx, replay: Option<&str>) {
    if let Some(rp) = replay { return run_replay(ctx, rp); }
    let root = Rng::new(ctx.seed);
    // ---- partners for linking: fixed assembled files + some generated ones
    let mut partners: Vec<ObjectFile> = vec![
        try_assemble(".orig x4000\nFOO .fill 7\nBAR ADD R0, R0, #1\nG0 HALT\nG1 .blkw 2\n.end\n", true).expect("partner 0"),
        try_assemble(".orig x5000\n.external FOO\nLD R0, P\nP .fill FOO\nQ .fill FOO\nG2 HALT\n.end\n", true).expect("partner 1"),
        try_assemble(".orig x6000\nFOO ADD R1, R1, #1\nX .stringz \"hi\"\n.end\n", false).expect("partner 2"),
        try_assemble("; nothing\n", true).expect("partner 3"),
        try_assemble(".orig x3000\nFOO .fill 1\nBAR .fill 2\n.end\n.orig xFDF0\n.blkw 16\n.end", true).expect("partner 4"),
        try_assemble(".external G0\n.external BAR\n.orig x0000\n.fill G0\n.fill BAR\n.end\n", true).expect("partner 5"),
    ];
    // ---- generated programs -> objects
    let nprog = ctx.n(160, 1400) as usize;
    let slots: Vec<std::sync::Mutex<Vec<(ObjectFile, &'static str)>>> = (0..nprog).map(|_| Default::default()).collect();
    par_for(nprog, |k| {
        let mut r = root.fork(k as u64);
        let p = gen_program(&mut r, k);
        let mut v = vec![];
        if k % 37 == 5 {
            // one giant block: direct round-trip oracles only (not linked, not mutated, no model cases)
            for dbg in [true, false] {
                match try_assemble(&p.src, dbg) {
                    Some(o) => { ctx.stat("objects.giant_block", 1); check_valid_opt(ctx, k, &o, "giant-block", false); }
                    None => ctx.stat("programs.giant_rejected", 1),
                }
            }
            return;
        }
        match try_assemble(&p.src, true) {
            Some(o) => { ctx.stat("objects.assembled_debug", 1); v.push((o, "debug-assembled")); }
            None => ctx.stat("programs.rejected", 1),
        }
        if r.chance(1, 3) { if let Some(o) = try_assemble(&p.src, false) { ctx.stat("objects.assembled_nodebug", 1); v.push((o, "assembled")); } }
        if k < 3 { ctx.sample(format!("program {k}: {:?}", p.src)); }
        *slots[k].lock().unwrap() = v;
    });
    let per_prog: Vec<Vec<(ObjectFile, &'static str)>> = slots.into_iter().map(|m| m.into_inner().unwrap()).collect();
    // ---- links of neighbours (k, k+1), both orders, and triples
    let mut objs: Vec<(ObjectFile, &'static str)> = vec![];
    let mut r = root.fork(1 << 40);
    for k in 0..nprog {
        for (o, w) in &per_prog[k] { objs.push((o.clone(), w)); }
        if k + 1 < nprog && (k + 1) % 16 != 0 {
            for (a, _) in &per_prog[k] { for (b, _) in &per_prog[k + 1] {
                let (x, y) = if r.chance(1, 2) { (a, b) } else { (b, a) };
                match catch(|| ObjectFile::link(x.clone(), y.clone())) {
                    Some(Ok(l)) => {
                        ctx.stat("objects.linked", 1);
                        if k + 2 < nprog && (k + 2) % 16 != 0 && r.chance(1, 3) {
                            if let Some((c, _)) = per_prog[k + 2].first() {
                                if let Some(Ok(l3)) = catch(|| ObjectFile::link(l.clone(), c.clone())) { ctx.stat("objects.linked3", 1); objs.push((l3, "linked (3 files)")); }
                            }
                        }
                        objs.push((l, "linked"));
                    }
                    Some(Err(_)) => ctx.stat("links.rejected", 1),
                    None => ctx.stat("links.panicked", 1),
                }
            } }
        }
    }
    for (o, _) in objs.iter().take(6) { partners.push(o.clone()); }
    ctx.stat("objects.total", objs.len() as i64);
    for (o, _) in &objs {
        if let Some(st) = o.symbol_table() {
            if !st.verif_relocs().is_empty() { ctx.stat("objects.with_relocations", 1); }
            if st.verif_labels().iter().any(|l| l.3) { ctx.stat("objects.with_externals", 1); }
            if st.source_info().is_none() { ctx.stat("objects.symbols_without_debug", 1); }
            if st.source_info().is_some_and(|s| !s.source().is_ascii()) { ctx.stat("objects.non_ascii_source", 1); }
        } else { ctx.stat("objects.without_symbols", 1); }
    }
    // ---- fixed inputs
    boundary(ctx, &partners, &mut r);
    // ---- valid objects (C17, C18) and untrusted inputs derived from them (C19)
    let nmut = ctx.n(6, 14);
    par_for(objs.len(), |k| {
        let (o, what) = &objs[k];
        let mut r = root.fork((2 << 40) + k as u64);
        check_valid(ctx, k, o, what);
        let base = spec_of(o);
        for j in 0..nmut {
            let mut s = base.clone();
            if j > 0 { mutate_spec(&mut s, &mut r); }
            let lie = j % 2 == 1;
            let bs = spec_to_bin(&s, &mut r, lie);
            read_bin(ctx, k, &bs, &partners, &mut r, if lie { "perturbed_file" } else { "mutated_spec" });
            let ts = spec_to_text(&s, &mut r, lie);
            read_text(ctx, k, &ts, &partners, &mut r, if lie { "perturbed_file" } else { "mutated_spec" });
        }
    });
    // ---- synthetic specs and raw noise
    let nsyn = ctx.n(1500, 30000) as usize;
    par_for(nsyn, |k| {
        let mut r = root.fork((3 << 40) + k as u64);
        let mut s = random_spec(&mut r);
        if r.chance(1, 2) { mutate_spec(&mut s, &mut r); }
        let lie = r.chance(1, 3);
        match r.below(8) {
            0 => { let n = r.below(48) as usize; let mut b: Vec<u8> = (0..n).map(|_| r.next() as u8).collect(); if r.chance(3, 4) { let mut h = b"obj\x21\x10\x00\x01".to_vec(); for x in b.iter_mut() { if r.chance(1, 2) { *x %= 6; } } h.extend(&b); b = h; } read_bin(ctx, k, &b, &partners, &mut r, "random"); }
            1 => { let t = random_text(&mut r); read_text(ctx, k, &t, &partners, &mut r, "random"); }
            2 | 3 | 4 => { let b = spec_to_bin(&s, &mut r, lie); read_bin(ctx, k, &b, &partners, &mut r, "synthetic"); }
            _ => { let t = spec_to_text(&s, &mut r, lie); read_text(ctx, k, &t, &partners, &mut r, "synthetic"); }
        }
    });
}

fn run_replay(ctx: &Ctx, rp: &str) {
    let Some((op, tree)) = rp.split_once('\t') else { return };
    let Some(t) = parse(tree) else { return };
    let partners: Vec<ObjectFile> = vec![];
    let mut r = Rng::new(ctx.seed);
    match op {
        "objbin.deser" => if let Some(l) = t.as_l() { let bs: Vec<u8> = l.iter().filter_map(|x| x.as_i()).map(|x| x as u8).collect(); read_bin(ctx, 0, &bs, &partners, &mut r, "replay"); },
        "objtext.deser" => if let Some(s) = t.to_string_lossy_chars() { read_text(ctx, 0, &s, &partners, &mut r, "replay"); },
        _ => eprintln!("replay of {op}: re-run the area with the same seed"),
    }
}
