//! C35 — Offset<i16,N>/Offset<u16,N>::new/new_trunc, exhaustive over N in 0..=17 (0 and 17 panic)
//! and every 16-bit value.
use crate::ctx::{catch, par_for, Ctx};
use crate::tree::*;
use lc3_ensemble::ast::{Offset, OffsetNewErr};

fn res_s(r: Option<Result<i16, OffsetNewErr>>) -> Tree {
    match r {
        None => panic(),
        Some(Ok(v)) => ok(vec![i(v)]),
        Some(Err(OffsetNewErr::CannotFitUnsigned(n))) => err(vec![i(0), i(n)]),
        Some(Err(OffsetNewErr::CannotFitSigned(n))) => err(vec![i(1), i(n)]),
    }
}
fn res_u(r: Option<Result<u16, OffsetNewErr>>) -> Tree {
    match r {
        None => panic(),
        Some(Ok(v)) => ok(vec![i(v)]),
        Some(Err(OffsetNewErr::CannotFitUnsigned(n))) => err(vec![i(0), i(n)]),
        Some(Err(OffsetNewErr::CannotFitSigned(n))) => err(vec![i(1), i(n)]),
    }
}

fn one<const N: u32>(ctx: &Ctx, shard: usize, step: usize) {
    // direct statement of the property (the failing-input search), independent of the model
    let n = N as i128;
    let mut v: i64 = -32768;
    while v < 65536 {
        if v < 32768 {
            let s = v as i16;
            let r = catch(|| Offset::<i16, N>::new(s).map(|o| o.get()));
            let t = catch(|| Offset::<i16, N>::new_trunc(s).get());
            ctx.case_to(shard, "offset.new_s", &L(vec![i(N), i(s)]), &res_s(r));
            ctx.case_to(shard, "offset.trunc_s", &L(vec![i(N), i(s)]), &res_s(t.map(Ok)));
            if (1..=16).contains(&N) {
                let fits = -(1i128 << (n - 1)) <= v as i128 && (v as i128) < (1i128 << (n - 1));
                let want = if fits { Some(Ok(s)) } else { Some(Err(OffsetNewErr::CannotFitSigned(N))) };
                if r != want {
                    ctx.fail("C35", "new_signed", format!("Offset::<i16,{N}>::new({s}) = {r:?}, expected {want:?}"), format!("offset.new_s\t({N} {s})"));
                }
                let m = (v as i128).rem_euclid(1 << n);
                let sx = if m < (1 << (n - 1)) { m } else { m - (1 << n) };
                if t.map(|x| x as i128) != Some(sx) {
                    ctx.fail("C35", "trunc_signed", format!("Offset::<i16,{N}>::new_trunc({s}) = {t:?}, expected {sx}"), format!("offset.trunc_s\t({N} {s})"));
                }
            }
        }
        if v >= 0 {
            let u = v as u16;
            let r = catch(|| Offset::<u16, N>::new(u).map(|o| o.get()));
            let t = catch(|| Offset::<u16, N>::new_trunc(u).get());
            ctx.case_to(shard, "offset.new_u", &L(vec![i(N), i(u)]), &res_u(r));
            ctx.case_to(shard, "offset.trunc_u", &L(vec![i(N), i(u)]), &res_u(t.map(Ok)));
            if (1..=16).contains(&N) {
                let fits = (v as i128) < (1i128 << n);
                let want = if fits { Some(Ok(u)) } else { Some(Err(OffsetNewErr::CannotFitUnsigned(N))) };
                if r != want {
                    ctx.fail("C35", "new_unsigned", format!("Offset::<u16,{N}>::new({u}) = {r:?}, expected {want:?}"), format!("offset.new_u\t({N} {u})"));
                }
                let zx = (v as i128).rem_euclid(1 << n);
                if t.map(|x| x as i128) != Some(zx) {
                    ctx.fail("C35", "trunc_unsigned", format!("Offset::<u16,{N}>::new_trunc({u}) = {t:?}, expected {zx}"), format!("offset.trunc_u\t({N} {u})"));
                }
            }
        }
        v += step as i64;
    }
}

pub fn run(ctx: &Ctx, _replay: Option<&str>) {
    // quick: every 7th value plus (through the stride being odd) all residues; thorough: every value.
    // Both tiers cover every N; the boundaries of every N are added explicitly below.
    let step = if ctx.quick() { 7 } else { 1 };
    macro_rules! all { ($($n:literal),*) => { par_for(18, |k| { match k { $($n => one::<$n>(ctx, k, step),)* _ => {} } }) } }
    all!(0, 1, 2, 3, 4, 5, 6, 7, 8, 9, 10, 11, 12, 13, 14, 15, 16, 17);
    // boundaries of every width, both tiers
    macro_rules! edges { ($($n:literal),*) => { $(
        for d in -2i64..=2 {
            for base in [-(1i64 << ($n - 1)), (1i64 << ($n - 1)), (1i64 << $n), 0, -32768, 32767, 65535] {
                let v = base + d;
                if (-32768..32768).contains(&v) {
                    let s = v as i16;
                    ctx.case("offset.new_s", &L(vec![i($n), i(s)]), &res_s(catch(|| Offset::<i16, $n>::new(s).map(|o| o.get()))));
                    ctx.case("offset.trunc_s", &L(vec![i($n), i(s)]), &res_s(catch(|| Ok(Offset::<i16, $n>::new_trunc(s).get()))));
                }
                if (0..65536).contains(&v) {
                    let u = v as u16;
                    ctx.case("offset.new_u", &L(vec![i($n), i(u)]), &res_u(catch(|| Offset::<u16, $n>::new(u).map(|o| o.get()))));
                    ctx.case("offset.trunc_u", &L(vec![i($n), i(u)]), &res_u(catch(|| Ok(Offset::<u16, $n>::new_trunc(u).get()))));
                }
            }
        }
    )* } }
    edges!(1, 2, 3, 4, 5, 6, 7, 8, 9, 10, 11, 12, 13, 14, 15, 16);
    ctx.stat("widths", 18);
    ctx.stat("stride", step as i64);
}
