//! C11 — the built-in OS trap routines (src/os.asm run by the simulator) meet their contracts.
//! Each case is a machine in user mode whose PC reaches one TRAP x20..x25 (written as a raw
//! word or produced by the crate's assembler from the alias GETC/OUT/PUTC/PUTS/IN/PUTSP/HALT),
//! optionally after a short generated prelude; random registers (data and init mask), condition
//! codes, priority, strings, keyboard queue and display contents; virtual and real traps.
//! Direct oracle: the contract, stated on the implementation's buffers / registers after the
//! trap has returned (PC = return address, user mode).  Every run is also a `sim.run`
//! correspondence case (whole observable state after every step).
//! The helpers at the top (`Runner`, `assemble_words`, `io_access`) are shared with `iolock.rs` (C33).
use crate::ctx::{par_for, Ctx};
use crate::rng::Rng;
use crate::simwire::*;
use crate::tree::*;

pub const KBSR: u16 = 0xFE00;
pub const KBDR: u16 = 0xFE02;
pub const DSR: u16 = 0xFE04;
pub const DDR: u16 = 0xFE06;
pub const PROMPT: &[u8] = b"Input character: ";

/// Assemble a source text with the crate's parser/assembler; (address, word) of every initialised word.
pub fn assemble_words(src: &str) -> Option<Vec<(u16, u16)>> {
    let ast = lc3_ensemble::parse::parse_ast(src).ok()?;
    let obj = lc3_ensemble::asm::assemble(ast).ok()?;
    Some(obj.addr_iter().filter_map(|(a, w)| w.map(|w| (a, w))).collect())
}

/// The device register the instruction at the PC is about to access through LDI/STI (the only
/// way the OS touches a device), with `true` for a store.  Read from memory without side effects.
pub fn io_access(m: &Machine) -> Option<(u16, bool)> {
    let pc = m.sim.pc;
    let w = m.sim.mem[pc].get();
    let op = w >> 12;
    if op != 0xA && op != 0xB { return None; }
    let off = ((w & 0x1FF) ^ 0x100).wrapping_sub(0x100);
    let p = pc.wrapping_add(1).wrapping_add(off);
    let a = m.sim.mem[p].get();
    if a >= 0xFE00 { Some((a, op == 0xB)) } else { None }
}

pub fn user_mode(m: &Machine) -> bool { m.sim.psr().get() & 0x8000 != 0 }
pub fn reg_w(m: &Machine, r: u8) -> W { m.sim.reg_file[reg(r)].verif_parts() }
pub fn kb_queue(m: &Machine) -> Vec<u8> { m.kb.as_ref().map(|b| b.read().unwrap_or_else(|e| e.into_inner()).iter().copied().collect()).unwrap_or_default() }
pub fn ds_buf(m: &Machine) -> Vec<u8> { m.ds.as_ref().map(|b| b.read().unwrap_or_else(|e| e.into_inner()).clone()).unwrap_or_default() }

/// Steps a machine under a lock schedule and accumulates the `sim.run` correspondence case.
pub struct Runner {
    pub m: Machine,
    pub state: Tree,
    pub envs: Vec<Tree>,
    pub obs: Vec<Tree>,
    pub last: Outcome,
}
impl Runner {
    pub fn new(st: &Setup) -> Runner {
        let mut m = build(st);
        let state = t_setup(st, &mut m);
        Runner { m, state, envs: vec![], obs: vec![], last: Outcome::Ok }
    }
    pub fn step(&mut self, kbl: bool, dsl: bool) -> Outcome {
        let (out, env, o) = self.m.step(kbl, dsl);
        self.envs.push(env);
        self.obs.push(o);
        self.last = out.clone();
        out
    }
    pub fn steps(&self) -> usize { self.envs.len() }
    pub fn case(&self) -> (Tree, Tree) {
        (L(vec![self.state.clone(), L(self.envs.clone())]), L(vec![L(self.obs.clone()), self.m.mem_diff()]))
    }
    pub fn replay(&self) -> String { format!("sim.run\t{}", L(vec![self.state.clone(), L(self.envs.clone())])) }
}

#[derive(Clone, Copy, PartialEq, Eq, Debug)]
pub enum Trap { Getc, Out, Puts, In, Putsp, Halt }
impl Trap {
    pub const ALL: [Trap; 6] = [Trap::Getc, Trap::Out, Trap::Puts, Trap::In, Trap::Putsp, Trap::Halt];
    pub fn vect(self) -> u16 { match self { Trap::Getc => 0x20, Trap::Out => 0x21, Trap::Puts => 0x22, Trap::In => 0x23, Trap::Putsp => 0x24, Trap::Halt => 0x25 } }
    pub fn of_vect(v: u16) -> Option<Trap> { Trap::ALL.iter().copied().find(|t| t.vect() == v) }
    pub fn name(self) -> &'static str { match self { Trap::Getc => "getc", Trap::Out => "out", Trap::Puts => "puts", Trap::In => "in", Trap::Putsp => "putsp", Trap::Halt => "halt" } }
    fn spellings(self) -> &'static [&'static str] {
        match self {
            Trap::Getc => &["GETC", "TRAP x20", "getc", "TRAP #32"],
            Trap::Out => &["OUT", "PUTC", "TRAP x21", "putc", "out"],
            Trap::Puts => &["PUTS", "TRAP x22", "puts"],
            Trap::In => &["IN", "TRAP x23", "in"],
            Trap::Putsp => &["PUTSP", "TRAP x24", "putsp"],
            Trap::Halt => &["HALT", "TRAP x25", "halt"],
        }
    }
}

/// What PUTS prints for the words at `addr` (independent of the OS code): low bytes up to the first zero WORD.
pub fn puts_bytes(words: &dyn Fn(u16) -> u16, addr: u16) -> Vec<u8> {
    let mut v = vec![];
    let mut a = addr;
    loop { let w = words(a); if w == 0 { return v; } v.push(w as u8); a = a.wrapping_add(1); }
}
/// What PUTSP prints: low byte then high byte of each word, stopping at the first zero BYTE.
pub fn putsp_bytes(words: &dyn Fn(u16) -> u16, addr: u16) -> Vec<u8> {
    let mut v = vec![];
    let mut a = addr;
    loop {
        let w = words(a);
        if w & 0xFF == 0 { return v; }
        v.push(w as u8);
        if w >> 8 == 0 { return v; }
        v.push((w >> 8) as u8);
        a = a.wrapping_add(1);
    }
}

pub struct Case {
    pub st: Setup,
    pub trap: Trap,
    pub trap_addr: u16,
    pub spelling: String,
    pub kb_lock_ok: bool,   // the keyboard lock may be held during this call (routine does not use it)
    pub ds_lock_ok: bool,
}

fn gen_string(r: &mut Rng, packed: bool) -> Vec<u16> {
    let n = match r.below(8) { 0 => 0, 1 => 1, 2 => 2, _ => r.below(if packed { 9 } else { 14 }) } as usize;
    let byte = |r: &mut Rng| -> u16 { match r.below(6) { 0 => 0xFF, 1 => 0x01, 2 => 0x80, _ => 1 + r.below(255) as u16 } };
    let mut v: Vec<u16> = vec![];
    for k in 0..n {
        if packed {
            let lo = byte(r);
            // odd length: the last word may have a zero high byte
            let hi = if k + 1 == n && r.chance(1, 2) { 0 } else { byte(r) };
            v.push(hi << 8 | lo);
        } else {
            // PUTS prints low bytes; the high byte is usually zero but need not be; a non-zero word with a zero low byte prints x00
            let hi = if r.chance(1, 5) { byte(r) } else { 0 };
            let lo = if hi != 0 && r.chance(1, 4) { 0 } else { byte(r) };
            v.push(hi << 8 | lo);
        }
    }
    // terminator: a zero word; for packed strings ending on a full word the zero word is needed
    // (a packed string also ends at a zero LOW byte whatever the high byte of that word is)
    if !(packed && v.last().is_some_and(|w| w >> 8 == 0) && r.chance(1, 2)) {
        v.push(if packed && r.chance(1, 3) { byte(r) << 8 } else { 0 });
    }
    v
}

pub fn gen_case(r: &mut Rng, trap: Trap) -> Case {
    let mut st = Setup::plain(match r.below(4) { 0 => 0, 1 => 0xFFFF, _ => r.u16() });
    st.real = r.chance(1, 2);
    st.debug_frames = r.chance(1, 2);
    st.ignore_priv = r.chance(1, 10);
    st.strict = r.chance(1, 5);
    st.mcr = true;
    st.instrs = if r.chance(1, 30) { u64::MAX - r.below(5) } else { r.below(100_000) };
    // user program somewhere in user space
    let base: u16 = match r.below(5) { 0 => 0x3000, 1 => 0xFDF0 - r.below(8) as u16, _ => 0x3000 + r.below(0xC000) as u16 };
    let prelude = if r.chance(1, 2) { r.below(4) as u16 } else { 0 };
    let trap_addr = base + prelude;
    st.pc = base;
    let prio = r.below(8) as u16;
    let cc = if r.chance(1, 12) { [0u16, 3, 5, 6, 7][r.below(5) as usize] } else { [1u16, 2, 4][r.below(3) as usize] };
    st.psr = 0x8000 | prio << 8 | cc;
    for k in 0..8 {
        let d = match r.below(5) { 0 => 0, 1 => 0xFFFF, 2 => r.below(256) as u16, _ => r.u16() };
        let n = if st.strict { 0xFFFF } else { match r.below(6) { 0 => 0, 1 => r.u16(), _ => 0xFFFF } };
        st.regs[k] = (d, n);
    }
    if r.chance(1, 4) { st.saved_sp = (0x3000 - 2 * r.below(64) as u16, 0xFFFF); }
    // prelude: register-only instructions (the registers / CC at the trap are then computed by the machine)
    for k in 0..prelude {
        let (dr, sr, sr2) = (r.below(8) as u16, r.below(8) as u16, r.below(8) as u16);
        let w = match r.below(5) {
            0 => 0x1000 | dr << 9 | sr << 6 | 0x20 | (r.below(32) as u16),
            1 => 0x1000 | dr << 9 | sr << 6 | sr2,
            2 => 0x5000 | dr << 9 | sr << 6 | 0x20 | (r.below(32) as u16),
            3 => 0x903F | dr << 9 | sr << 6,
            _ => 0xE000 | dr << 9 | (r.below(512) as u16),
        };
        st.overrides.push((base + k, (w, 0xFFFF)));
    }
    // the trap word: raw or through the assembler (aliases)
    let sp = trap.spellings();
    let spelling = sp[r.below(sp.len() as u64) as usize].to_string();
    let word = if r.chance(1, 3) { 0xF000 | trap.vect() } else {
        let src = format!(".orig x{trap_addr:04X}\n    {spelling}\n.end\n");
        match assemble_words(&src) { Some(ws) if ws.len() == 1 && ws[0].0 == trap_addr => ws[0].1, _ => 0xFFFF /* reported by the oracle */ }
    };
    st.overrides.push((trap_addr, (word, 0xFFFF)));
    st.overrides.push((trap_addr + 1, (0xF025, 0xFFFF)));
    // strings live in user space, away from the code
    let mut str_addr = 0u16;
    if matches!(trap, Trap::Puts | Trap::Putsp) {
        let s = gen_string(r, trap == Trap::Putsp);
        loop {
            str_addr = match r.below(4) { 0 => 0xFDFF - s.len() as u16 + 1, 1 => 0x3000 + 0x40, _ => 0x3000 + r.below(0xCD00) as u16 };
            let end = str_addr as u32 + s.len() as u32;
            let clash = (str_addr as u32) < trap_addr as u32 + 8 && end + 8 > base as u32;
            if end <= 0xFE00 && !clash { break; }
        }
        for (k, w) in s.iter().enumerate() { st.overrides.push((str_addr + k as u16, (*w, 0xFFFF))); }
    }
    // other user memory that must survive
    for _ in 0..r.below(6) {
        let a = 0x3000 + r.below(0xCE00) as u16;
        if a.abs_diff(trap_addr) > 8 && (str_addr == 0 || a < str_addr.saturating_sub(1) || a > str_addr.saturating_add(40)) && a.abs_diff(base) > 8 {
            st.overrides.push((a, (r.u16(), if st.strict || r.chance(3, 4) { 0xFFFF } else { r.u16() })));
        }
    }
    // R0: the argument (set after the prelude cannot clobber it: the prelude is only used when it leaves R0 alone for string traps)
    if matches!(trap, Trap::Puts | Trap::Putsp) {
        st.regs[0] = (str_addr, 0xFFFF);
        // make the prelude leave R0 alone
        for k in 0..prelude as usize {
            let idx = k; // prelude words are the first overrides
            let (a, (w, n)) = st.overrides[idx];
            if (w >> 9) & 7 == 0 { st.overrides[idx] = (a, (w | 1 << 9, n)); }
        }
    }
    if trap == Trap::Out && st.strict { st.regs[0].1 = 0xFFFF; }
    // devices
    let input = matches!(trap, Trap::Getc | Trap::In);
    let output = matches!(trap, Trap::Out | Trap::Puts | Trap::Putsp | Trap::In);
    let qn = if input { 1 + r.below(5) } else { r.below(4) };
    let ie = prio >= 4 && r.chance(1, 3);
    let q: Vec<u8> = (0..qn).map(|_| match r.below(6) { 0 => 0, 1 => 0xFF, 2 => 0x80, _ => r.next() as u8 }).collect();
    if input || r.chance(3, 4) { st.kb = Some((q, ie)); }
    if output || r.chance(3, 4) { st.ds = Some((0..r.below(4)).map(|_| r.next() as u8).collect()); }
    Case { st, trap, trap_addr, spelling, kb_lock_ok: !input, ds_lock_ok: !output }
}

struct Snap { regs: [W; 8], psr: u16, ssp: W, frames: u64, kb: Vec<u8>, ds: Vec<u8>, mcr: bool, instrs: u64 }
fn snap(m: &Machine) -> Snap {
    let mut regs = [(0, 0); 8];
    for k in 0..8u8 { regs[k as usize] = reg_w(m, k); }
    Snap { regs, psr: m.sim.psr().get(), ssp: m.sim.verif_saved_sp().verif_parts(), frames: m.sim.frame_stack.len(),
           kb: kb_queue(m), ds: ds_buf(m), mcr: m.sim.mcr().load(std::sync::atomic::Ordering::Relaxed), instrs: m.sim.instructions_run }
}

/// Runs one case; returns the problems found (class, text) and the runner (for the correspondence case).
pub fn run_contract(c: &Case, r: &mut Rng) -> (Vec<(&'static str, String)>, Runner) {
    let mut bad: Vec<(&'static str, String)> = vec![];
    let mut run = Runner::new(&c.st);
    let ret = c.trap_addr + 1;
    // prelude
    let mut guard = 0;
    while run.m.sim.pc != c.trap_addr {
        if run.step(r.chance(1, 4), r.chance(1, 4)) != Outcome::Ok || guard > 8 { bad.push(("prelude_failed", format!("prelude did not reach the trap at x{:04X}", c.trap_addr))); return (bad, run); }
        guard += 1;
    }
    let word = run.m.sim.mem[c.trap_addr].get();
    if word != 0xF000 | c.trap.vect() {
        bad.push(("alias_word", format!("`{}` assembled to x{word:04X}, expected x{:04X}", c.spelling, 0xF000 | c.trap.vect())));
        return (bad, run);
    }
    let before = snap(&run.m);
    let words0: Vec<u16> = (0..=u16::MAX).map(|a| run.m.sim.mem[a].get()).collect();
    let at = |a: u16| words0[a as usize];
    let r0 = before.regs[0].0;
    // expected effect, from the contract
    let (exp_out, exp_r0, exp_consumed): (Vec<u8>, Option<u16>, usize) = match c.trap {
        Trap::Getc => (vec![], before.kb.first().map(|b| *b as u16), 1),
        Trap::Out => (vec![r0 as u8], None, 0),
        Trap::Puts => (puts_bytes(&at, r0), None, 0),
        Trap::Putsp => (putsp_bytes(&at, r0), None, 0),
        Trap::In => { let mut v = PROMPT.to_vec(); v.extend(before.kb.first()); (v, before.kb.first().map(|b| *b as u16), 1) }
        Trap::Halt => (vec![], None, 0),
    };
    let what = |s: String| format!("{} at x{:04X} (real={} strict={} frames={} psr=x{:04X} r0=x{:04X}): {s}", c.trap.name(), c.trap_addr, c.st.real, c.st.strict, c.st.debug_frames, before.psr, r0);
    if c.trap == Trap::Halt {
        if !c.st.real {
            let out = run.step(r.chance(1, 3), r.chance(1, 3));
            let a = snap(&run.m);
            if out != Outcome::Ok || run.m.sim.pc != c.trap_addr { bad.push(("halt_virtual", what(format!("virtual HALT: outcome {out:?}, pc=x{:04X} (expected to stay at the trap)", run.m.sim.pc)))); }
            if a.regs != before.regs || a.psr != before.psr || a.ds != before.ds || a.kb != before.kb || a.ssp != before.ssp { bad.push(("halt_virtual_state", what("virtual HALT changed registers / PSR / devices".into()))); }
        } else {
            for _ in 0..3 { if run.step(r.chance(1, 3), r.chance(1, 3)) != Outcome::Ok { break; } }
            let a = snap(&run.m);
            if run.last != Outcome::Ok || a.mcr { bad.push(("halt_real", what(format!("real HALT: after 3 instructions MCR is {} (outcome {:?})", a.mcr, run.last)))); }
            if a.regs[..6] != before.regs[..6] || a.ds != before.ds || a.kb != before.kb { bad.push(("halt_real_state", what("real HALT changed R0-R5 or the devices".into()))); }
        }
        // and through run(): the machine stops
        let mut m2 = build(&c.st);
        let i0 = m2.sim.instructions_run;
        let res = crate::ctx::catch(|| m2.sim.run_with_limit(64));
        let ran = m2.sim.instructions_run.wrapping_sub(i0);
        let ok = matches!(res, Some(Ok(()))) && m2.sim.hit_halt() && !m2.sim.mcr().load(std::sync::atomic::Ordering::Relaxed) && ran < 64
            && (c.st.real || m2.sim.pc == c.trap_addr) && ds_buf(&m2) == before.ds && kb_queue(&m2) == before.kb
            && (0..6u8).all(|k| reg_w(&m2, k) == before.regs[k as usize]);
        if !ok { bad.push(("halt_run", what(format!("run() did not stop at HALT cleanly: hit_halt={} ran={ran} pc=x{:04X}", m2.sim.hit_halt(), m2.sim.pc)))); }
        return (bad, run);
    }
    // run until the trap returns
    let limit = 200 + 140 * (exp_out.len() + 2);
    let mut n = 0;
    loop {
        let kbl = c.kb_lock_ok && r.chance(1, 3);
        let dsl = c.ds_lock_ok && r.chance(1, 3);
        if run.step(kbl, dsl) != Outcome::Ok { bad.push(("trap_error", what(format!("step {} inside the trap ended with {:?}", n, run.last)))); return (bad, run); }
        n += 1;
        if run.m.sim.pc == ret && user_mode(&run.m) { break; }
        if n > limit { bad.push(("no_return", what(format!("no return to x{ret:04X} within {limit} instructions")))); return (bad, run); }
    }
    let a = snap(&run.m);
    for k in 0..8usize {
        if k == 0 && exp_r0.is_some() { continue; }
        if a.regs[k] != before.regs[k] { bad.push(("register_changed", what(format!("R{k} was {:?}, now {:?}", before.regs[k], a.regs[k])))); }
    }
    if let Some(v) = exp_r0 { if a.regs[0] != (v, 0xFFFF) { bad.push(("r0_result", what(format!("R0 = {:?}, expected x{v:04X}", a.regs[0])))); } }
    if a.psr != before.psr { bad.push(("psr_changed", what(format!("PSR x{:04X} -> x{:04X} (condition codes / privilege / priority)", before.psr, a.psr)))); }
    if a.ssp != before.ssp { bad.push(("ssp_changed", what(format!("saved SP {:?} -> {:?}", before.ssp, a.ssp)))); }
    if a.frames != before.frames { bad.push(("frames_changed", what(format!("frame count {} -> {}", before.frames, a.frames)))); }
    if a.mcr != before.mcr { bad.push(("mcr_changed", what("MCR changed".into()))); }
    let mut exp_ds = before.ds.clone(); exp_ds.extend(&exp_out);
    if a.ds != exp_ds && c.st.ds.is_some() { bad.push(("display", what(format!("display {:?}, expected {:?}", a.ds, exp_ds)))); }
    let exp_kb: Vec<u8> = before.kb[exp_consumed.min(before.kb.len())..].to_vec();
    if a.kb != exp_kb { bad.push(("keyboard", what(format!("keyboard queue {:?}, expected {:?}", a.kb, exp_kb)))); }
    // memory: only the supervisor stack below the saved SP and the device mirrors may differ
    let ssp = before.ssp.0;
    for adr in 0..=u16::MAX {
        let w = run.m.sim.mem[adr].get();
        if run.m.sim.mem[adr] != run.m.initial_mem[adr as usize] {
            let stack = adr < ssp && adr >= ssp.wrapping_sub(16);
            let mirror = matches!(adr, KBSR | KBDR | DSR | DDR);
            if (0x3000..0xFE00).contains(&adr) { bad.push(("user_memory", what(format!("user memory x{adr:04X} changed: x{:04X} -> x{w:04X}", words0[adr as usize])))); }
            else if !stack && !mirror { bad.push(("system_memory", what(format!("memory x{adr:04X} outside the supervisor stack changed")))); }
        }
    }
    (bad, run)
}

pub fn run(ctx: &Ctx, _replay: Option<&str>) {
    let per = ctx.n(220, 3000) as usize;
    let runs = per * Trap::ALL.len();
    let root = Rng::new(ctx.seed ^ 0xC11);
    let steps_total = std::sync::atomic::AtomicU64::new(0);
    par_for(runs, |k| {
        let mut r = root.fork(k as u64 + 1);
        let trap = Trap::ALL[k % Trap::ALL.len()];
        let c = gen_case(&mut r, trap);
        let (bad, run) = run_contract(&c, &mut r);
        for (class, what) in bad { ctx.fail("C11", class, what, run.replay()); }
        let (inp, out) = run.case();
        steps_total.fetch_add(run.steps() as u64, std::sync::atomic::Ordering::Relaxed);
        ctx.case_to(k, "sim.run", &inp, &out);
        ctx.stat(&format!("trap.{}", trap.name()), 1);
        if c.st.real { ctx.stat("real_traps", 1); }
        if c.st.strict { ctx.stat("strict", 1); }
        if k < 6 { ctx.sample(format!("{} `{}` at x{:04X}: {} steps, display {:?}", trap.name(), c.spelling, c.trap_addr, run.steps(), ds_buf(&run.m))); }
    });
    ctx.stat("runs", runs as i64);
    ctx.stat("steps", steps_total.load(std::sync::atomic::Ordering::Relaxed) as i64);
}
