//! C03 / C04 — `parse_ast` on (a) programs rendered from generated statement lists with randomized
//! surface syntax and (b) a malformed stream (random Unicode, mutated programs, escape edge cases,
//! huge numbers, 65534/65535-byte string literals).
//!
//! Correspondence: op `parse.ast` (code points -> (0 stmts) | (1 kind start end) | (2) panic).
//! Direct oracles (independent of the model):
//!   C03  the written statement list == the parsed list, every span covering exactly the text of
//!        its instruction/directive, every label at its written offset; metamorphic pairs (same
//!        program, two layouts) assemble to the same image and label addresses;
//!   C04  no panic, and every error span satisfies 0 <= start <= end <= len on char boundaries.
//! The generator, the renderer and the result encoders are shared with the `lexnum` and
//! `printparse` areas.
use crate::astwire::t_stmts;
use crate::ctx::{catch, Ctx};
use crate::rng::Rng;
use crate::tree::*;
use lc3_ensemble::ast::OffsetNewErr;
use lc3_ensemble::err::Error as _;
use lc3_ensemble::parse::lex::{Ident, LexErr, Token};
use lc3_ensemble::parse::{parse_ast, ParseErr};
use logos::Logos;

// ------------------------------------------------------------------------------------------
// result encoders (canonical, shared)
// ------------------------------------------------------------------------------------------
pub fn lex_err_tag(e: &LexErr) -> i128 {
    match e {
        LexErr::DoesNotFitU16 => 0, LexErr::DoesNotFitI16 => 1, LexErr::InvalidHex => 2, LexErr::InvalidNumeric => 3,
        LexErr::InvalidHexEmpty => 4, LexErr::InvalidDecEmpty => 5, LexErr::UnknownIntErr => 6, LexErr::UnclosedStrLit => 7,
        LexErr::StrLitTooBig => 8, LexErr::InvalidReg => 9, LexErr::InvalidSymbol => 10,
    }
}
const MSGS: [&str; 17] = [
    "expected register or immediate value", "expected offset or label", "expected comma", "expected colon",
    "expected string literal", "expected end of line", "expected immediate value", "could not parse",
    "invalid register number", "expected register", "expected label", "expected instruction", "expected directive",
    "expected numeric or label", "block size must be greater than 0", "invalid directive", "expected instruction or directive",
];
/// error class of a ParseErr: 0..10 lexer errors, 100+N / 200+N offset errors, 300+k parser messages
pub fn perr_tag(e: &ParseErr) -> i128 {
    use std::error::Error;
    if let Some(src) = e.source() {
        if let Some(l) = src.downcast_ref::<LexErr>() { return lex_err_tag(l); }
        if let Some(o) = src.downcast_ref::<OffsetNewErr>() {
            return match o { OffsetNewErr::CannotFitUnsigned(n) => 100 + *n as i128, OffsetNewErr::CannotFitSigned(n) => 200 + *n as i128 };
        }
        return 998;
    }
    let m = e.to_string();
    if m.starts_with("invalid register number") { return 308; }
    match MSGS.iter().position(|x| *x == m) { Some(k) => 300 + k as i128, None => 999 }
}
pub fn perr_span(e: &ParseErr) -> (usize, usize) {
    let sp = e.span().map(|s| s.first()).unwrap_or(usize::MAX..usize::MAX);
    (sp.start, sp.end)
}
/// `parse_ast(s)` as the canonical result tree
pub fn parse_tree(s: &str) -> Tree {
    match catch(|| parse_ast(s)) {
        None => panic(),
        Some(Ok(v)) => ok(vec![t_stmts(&v)]),
        Some(Err(e)) => { let (a, b) = perr_span(&e); err(vec![i(perr_tag(&e)), iu(a), iu(b)]) }
    }
}
pub fn kw_index(id: &Ident) -> Option<i128> {
    use Ident::*;
    Some(match id {
        ADD => 0, AND => 1, NOT => 2, BR => 3, BRP => 4, BRZ => 5, BRZP => 6, BRN => 7, BRNP => 8, BRNZ => 9, BRNZP => 10,
        JMP => 11, JSR => 12, JSRR => 13, LD => 14, LDI => 15, LDR => 16, LEA => 17, ST => 18, STI => 19, STR => 20, TRAP => 21,
        NOP => 22, RET => 23, RTI => 24, GETC => 25, OUT => 26, PUTC => 27, PUTS => 28, IN => 29, PUTSP => 30, HALT => 31,
        Label(_) => return None,
    })
}
pub fn t_token(t: &Token) -> Tree {
    match t {
        Token::Unsigned(v) => L(vec![i(0), i(*v)]),
        Token::Signed(v) => L(vec![i(1), i(*v)]),
        Token::Reg(r) => L(vec![i(2), i(*r)]),
        Token::Ident(id) => match (kw_index(id), id) {
            (Some(k), _) => L(vec![i(3), i(k)]),
            (None, Ident::Label(s)) => L(vec![i(4), chars(s)]),
            _ => L(vec![i(99)]),
        },
        Token::Directive(s) => L(vec![i(5), chars(s)]),
        Token::String(s) => L(vec![i(6), chars(s)]),
        Token::Colon => L(vec![i(7)]),
        Token::Comma => L(vec![i(8)]),
        Token::Comment => L(vec![i(9)]),
        Token::NewLine => L(vec![i(10)]),
    }
}
/// the token stream up to and including the first error (what `Parser::new` consumes)
pub fn lex_tree(s: &str) -> Tree {
    let r = catch(|| {
        let mut toks = vec![];
        for (t, sp) in Token::lexer(s).spanned() {
            match t {
                Ok(t) => toks.push(L(vec![t_token(&t), iu(sp.start), iu(sp.end)])),
                Err(e) => return err(vec![L(toks), i(lex_err_tag(&e)), iu(sp.start), iu(sp.end)]),
            }
        }
        ok(vec![L(toks)])
    });
    r.unwrap_or_else(panic)
}

// ------------------------------------------------------------------------------------------
// written programs
// ------------------------------------------------------------------------------------------
#[derive(Clone, Debug)]
pub enum Op {
    R(u8),
    IrImm(i64), IrReg(u8),
    Pc(i64), PcLab(String),
    /// bare integer operand: offset6, trapvect8, .orig, .blkw
    Off(i64),
    FillNum(i64), FillLab(String),
    /// (written piece, value piece) pairs
    Str(Vec<(String, String)>),
    Lab(String),
}
#[derive(Clone, Debug)]
pub struct WStmt {
    pub labels: Vec<String>,
    pub mnem: &'static str,
    pub dir: bool,
    pub tag: i128,
    pub pre: Vec<i128>,
    pub ops: Vec<Op>,
}

#[derive(Clone, Copy)]
enum K { R, Ir5, Pc9, Pc11, Off6, Tv8, U16, Blkw, Fill, Str, Lab }
const FORMS: &[(&str, bool, i128, &[i128], &[K])] = &[
    ("ADD", false, 0, &[], &[K::R, K::R, K::Ir5]), ("AND", false, 1, &[], &[K::R, K::R, K::Ir5]),
    ("BR", false, 2, &[7], &[K::Pc9]), ("BRn", false, 2, &[4], &[K::Pc9]), ("BRz", false, 2, &[2], &[K::Pc9]),
    ("BRp", false, 2, &[1], &[K::Pc9]), ("BRnz", false, 2, &[6], &[K::Pc9]), ("BRnp", false, 2, &[5], &[K::Pc9]),
    ("BRzp", false, 2, &[3], &[K::Pc9]), ("BRnzp", false, 2, &[7], &[K::Pc9]),
    ("JMP", false, 3, &[], &[K::R]), ("JSR", false, 4, &[], &[K::Pc11]), ("JSRR", false, 5, &[], &[K::R]),
    ("LD", false, 6, &[], &[K::R, K::Pc9]), ("LDI", false, 7, &[], &[K::R, K::Pc9]), ("LDR", false, 8, &[], &[K::R, K::R, K::Off6]),
    ("LEA", false, 9, &[], &[K::R, K::Pc9]), ("NOT", false, 10, &[], &[K::R, K::R]), ("RET", false, 11, &[], &[]),
    ("RTI", false, 12, &[], &[]), ("ST", false, 13, &[], &[K::R, K::Pc9]), ("STI", false, 14, &[], &[K::R, K::Pc9]),
    ("STR", false, 15, &[], &[K::R, K::R, K::Off6]), ("TRAP", false, 16, &[], &[K::Tv8]), ("NOP", false, 17, &[], &[K::Pc9]),
    ("NOP", false, 17, &[], &[]),
    ("GETC", false, 18, &[], &[]), ("OUT", false, 19, &[], &[]), ("PUTC", false, 20, &[], &[]), ("PUTS", false, 21, &[], &[]),
    ("IN", false, 22, &[], &[]), ("PUTSP", false, 23, &[], &[]), ("HALT", false, 24, &[], &[]),
    (".orig", true, 0, &[], &[K::U16]), (".fill", true, 1, &[], &[K::Fill]), (".blkw", true, 2, &[], &[K::Blkw]),
    (".stringz", true, 3, &[], &[K::Str]), (".end", true, 4, &[], &[]), (".external", true, 5, &[], &[K::Lab]),
];
const N_INSTR_FORMS: usize = 33;

pub const KEYWORDS: [&str; 32] = ["ADD", "AND", "NOT", "BR", "BRP", "BRZ", "BRZP", "BRN", "BRNP", "BRNZ", "BRNZP", "JMP", "JSR", "JSRR",
    "LD", "LDI", "LDR", "LEA", "ST", "STI", "STR", "TRAP", "NOP", "RET", "RTI", "GETC", "OUT", "PUTC", "PUTS", "IN", "PUTSP", "HALT"];

/// does the lexer classify `s` as a plain label? (decided with the implementation's own rules,
/// stated independently: identifier shape, not a keyword in any case, not register- or hex-like)
pub fn is_label_name(s: &str) -> bool {
    let cs: Vec<char> = s.chars().collect();
    if cs.is_empty() || !(cs[0].is_ascii_alphabetic() || cs[0] == '_') { return false; }
    if KEYWORDS.contains(&s.to_uppercase().as_str()) { return false; }
    if (cs[0] == 'x' || cs[0] == 'X') && cs.len() > 1 && (cs[1].is_ascii_hexdigit() || cs[1].is_numeric()) { return false; }
    if (cs[0] == 'r' || cs[0] == 'R') && cs.len() > 1 && cs[1..].iter().all(|c| c.is_numeric()) { return false; }
    true
}
const WORD_EXTRA: [char; 14] = ['é', 'ß', 'ı', 'ſ', '٣', '\u{301}', 'Ω', '中', '𝐀', 'ﬁ', 'ﬆ', '\u{200d}', '߉', 'ǅ'];
pub fn gen_label(r: &mut Rng, ascii_only: bool) -> String {
    loop {
        let m = if r.chance(1, 8) { 12 } else { 5 };
        let n = 1 + r.below(m) as usize;
        let mut s = String::new();
        for k in 0..n {
            let c = if k == 0 {
                *r.pick(&['a', 'b', 'L', 'x', 'X', 'r', 'R', '_', 'Z', 'q', 'n', 's', 'i', 'S', 'A', 'B', 'h', 'g'])
            } else if !ascii_only && r.chance(1, 10) {
                *r.pick(&WORD_EXTRA)
            } else {
                *r.pick(&['a', 'D', 'e', 'f', 'G', '0', '1', '7', '9', '_', 'x', 'r', 'T', 'n', 'p', 'z', 'I', 'N', 'O', 'P', 'U', 'S', 'Q', 'k'])
            };
            s.push(c);
        }
        if is_label_name(&s) { return s; }
    }
}

fn gen_num(r: &mut Rng, lo: i64, hi: i64) -> i64 {
    match r.below(6) {
        0 => lo, 1 => hi, 2 => *r.pick(&[0, 1, -1, lo + 1, hi - 1]).max(&lo).min(&hi),
        _ => r.range(lo, hi),
    }
}
fn gen_str(r: &mut Rng, alphabet_only: bool) -> Vec<(String, String)> {
    let m = if r.chance(1, 10) { 30 } else { 8 };
    let n = r.below(m);
    let mut v = vec![];
    for _ in 0..n {
        let p: (String, String) = match r.below(14) {
            0 => ("\\n".into(), "\n".into()), 1 => ("\\t".into(), "\t".into()), 2 => ("\\r".into(), "\r".into()),
            3 => ("\\0".into(), "\0".into()), 4 => ("\\\"".into(), "\"".into()), 5 => ("\\\\".into(), "\\".into()),
            6 => { // unknown escape: backslash and the character are kept
                let c = if !alphabet_only && r.chance(1, 3) { *r.pick(&['é', '€', '𝐀', 'ſ']) } else { *r.pick(&['e', 'x', ' ', '\'', ';', 'N', '1', '#']) };
                (format!("\\{c}"), format!("\\{c}"))
            }
            7 => { let c = *r.pick(&['\t', '\0', ';', ':', ',', '#', '\'']); (c.to_string(), c.to_string()) }
            8 if !alphabet_only => { let c = *r.pick(&['é', '€', '𝐀', '\u{7f}', '\u{1}', '\u{301}', 'ß']); (c.to_string(), c.to_string()) }
            _ => { let c = (32 + r.below(95)) as u8 as char; if c == '"' || c == '\\' { ("a".into(), "a".into()) } else { (c.to_string(), c.to_string()) } }
        };
        v.push(p);
    }
    v
}

pub struct GenCfg { pub ascii_labels: bool, pub alphabet_strings: bool }

pub fn gen_stmt(r: &mut Rng, pool: &[String], cfg: &GenCfg, form: Option<usize>) -> WStmt {
    let f = form.unwrap_or_else(|| if r.chance(1, 4) { N_INSTR_FORMS + r.below((FORMS.len() - N_INSTR_FORMS) as u64) as usize } else { r.below(N_INSTR_FORMS as u64) as usize });
    let (mnem, dir, tag, pre, kinds) = FORMS[f];
    let lab = |r: &mut Rng| if pool.is_empty() || r.chance(1, 4) { gen_label(r, cfg.ascii_labels) } else { r.pick(pool).clone() };
    let mut ops = vec![];
    for k in kinds {
        ops.push(match k {
            K::R => Op::R(r.below(8) as u8),
            K::Ir5 => if r.chance(1, 2) { Op::IrImm(gen_num(r, -16, 15)) } else { Op::IrReg(r.below(8) as u8) },
            K::Pc9 => if r.chance(1, 2) { Op::Pc(gen_num(r, -256, 255)) } else { Op::PcLab(lab(r)) },
            K::Pc11 => if r.chance(1, 2) { Op::Pc(gen_num(r, -1024, 1023)) } else { Op::PcLab(lab(r)) },
            K::Off6 => Op::Off(gen_num(r, -32, 31)),
            K::Tv8 => Op::Off(gen_num(r, 0, 255)),
            K::U16 => Op::Off(gen_num(r, 0, 65535)),
            K::Blkw => Op::Off(gen_num(r, 1, 65535)),
            K::Fill => if r.chance(2, 3) { Op::FillNum(gen_num(r, -32768, 65535)) } else { Op::FillLab(lab(r)) },
            K::Str => Op::Str(gen_str(r, cfg.alphabet_strings)),
            K::Lab => Op::Lab(lab(r)),
        });
    }
    let nl = match r.below(8) { 0..=4 => 0, 5 | 6 => 1, _ => 1 + r.below(3) as usize };
    let labels = (0..nl).map(|_| lab(r)).collect();
    WStmt { labels, mnem, dir, tag, pre: pre.to_vec(), ops }
}
pub fn gen_program(r: &mut Rng, cfg: &GenCfg, max: u64) -> Vec<WStmt> {
    let pool: Vec<String> = (0..4).map(|_| gen_label(r, cfg.ascii_labels)).collect();
    let n = r.below(max + 1);
    (0..n).map(|_| gen_stmt(r, &pool, cfg, None)).collect()
}

// ------------------------------------------------------------------------------------------
// rendering with randomized surface syntax
// ------------------------------------------------------------------------------------------
pub fn rand_case(r: &mut Rng, s: &str) -> String {
    match r.below(4) {
        0 => s.to_string(), 1 => s.to_ascii_uppercase(), 2 => s.to_ascii_lowercase(),
        _ => s.chars().map(|c| if r.chance(1, 2) { c.to_ascii_uppercase() } else { c.to_ascii_lowercase() }).collect(),
    }
}
fn zeros(r: &mut Rng) -> String {
    let n = match r.below(10) { 0..=5 => 0, 6 | 7 => 1, 8 => 1 + r.below(3), _ => 5 + r.below(36) };
    "0".repeat(n as usize)
}
/// one of the notations that can express `v` (decimal, `#`, hex; signed forms for v <= 0)
pub fn render_num(r: &mut Rng, v: i64) -> String {
    let a = v.unsigned_abs();
    let hex = |r: &mut Rng| -> String { format!("{a:x}").chars().map(|c| if r.chance(1, 2) { c.to_ascii_uppercase() } else { c }).collect() };
    let x = if r.chance(1, 2) { 'x' } else { 'X' };
    let z = zeros(r);
    if v > 0 {
        match r.below(3) { 0 => format!("{z}{a}"), 1 => format!("#{z}{a}"), _ => format!("{x}{z}{}", hex(r)) }
    } else if v < 0 {
        match r.below(3) { 0 => format!("-{z}{a}"), 1 => format!("#-{z}{a}"), _ => format!("{x}-{z}{}", hex(r)) }
    } else {
        match r.below(6) { 0 => format!("{z}0"), 1 => format!("#{z}0"), 2 => format!("{x}{z}0"), 3 => format!("-{z}0"), 4 => format!("#-{z}0"), _ => format!("{x}-{z}0") }
    }
}
fn render_reg(r: &mut Rng, n: u8) -> String {
    format!("{}{}{}", if r.chance(1, 2) { 'R' } else { 'r' }, if r.chance(1, 12) { "0".repeat(1 + r.below(3) as usize) } else { String::new() }, n)
}
fn blanks(r: &mut Rng, min: u64, max: u64) -> String {
    (0..r.range(min as i64, max as i64)).map(|_| if r.chance(1, 4) { '\t' } else { ' ' }).collect()
}
fn comment(r: &mut Rng) -> String {
    let n = r.below(12);
    let mut s = String::from(";");
    for _ in 0..n {
        s.push(match r.below(8) { 0 => *r.pick(&['"', '\\', ';', '\r', 'é', '€', '𝐀', '.', '#']), _ => (32 + r.below(95)) as u8 as char });
    }
    s
}

pub struct Style { pub crlf: u64, pub comments: bool, pub own_line_labels: bool, pub blank_lines: bool }
impl Style {
    pub fn any(r: &mut Rng) -> Style { Style { crlf: r.below(3), comments: r.chance(2, 3), own_line_labels: r.chance(2, 3), blank_lines: r.chance(2, 3) } }
}

/// Renders the statements and returns (text, expected result tree of `parse_ast`).
pub fn render(r: &mut Rng, prog: &[WStmt], st: &Style) -> (String, Tree) {
    let mut out = String::new();
    let mut stmts = vec![];
    let eol = |r: &mut Rng, out: &mut String| out.push_str(match st.crlf { 0 => "\n", 1 => "\r\n", _ => if r.chance(1, 2) { "\n" } else { "\r\n" } });
    let filler = |r: &mut Rng, out: &mut String| {
        if st.blank_lines {
            for _ in 0..(if r.chance(1, 3) { r.below(3) } else { 0 }) {
                out.push_str(&blanks(r, 0, 3));
                if st.comments && r.chance(1, 2) { out.push_str(&comment(r)); }
                eol(r, out);
            }
        }
    };
    let lab_tree = |name: &str, at: usize| L(vec![chars(name), iu(at)]);
    for (k, w) in prog.iter().enumerate() {
        filler(r, &mut out);
        out.push_str(&blanks(r, 0, 3));
        let mut labs = vec![];
        for l in &w.labels {
            labs.push(lab_tree(l, out.len()));
            out.push_str(l);
            if r.chance(1, 2) { out.push_str(&blanks(r, 0, 1)); out.push(':'); out.push_str(&blanks(r, 0, 2)); }
            else if st.own_line_labels && r.chance(1, 3) { /* the line break below separates */ }
            else { out.push_str(&blanks(r, 1, 3)); }
            if st.own_line_labels && r.chance(1, 3) {
                out.push_str(&blanks(r, 0, 2));
                if st.comments && r.chance(1, 4) { out.push_str(&comment(r)); }
                eol(r, &mut out);
                filler(r, &mut out);
                out.push_str(&blanks(r, 0, 3));
            } else if !out.ends_with([' ', '\t', ':']) { out.push(' '); }
        }
        let start = out.len();
        out.push_str(&rand_case(r, w.mnem));
        let mut end = out.len();
        let mut ops = vec![];
        for (j, op) in w.ops.iter().enumerate() {
            let (text, lab_off): (String, Option<usize>) = match op {
                Op::R(n) | Op::IrReg(n) => (render_reg(r, *n), None),
                Op::IrImm(v) | Op::Pc(v) | Op::Off(v) | Op::FillNum(v) => (render_num(r, *v), None),
                Op::PcLab(l) | Op::FillLab(l) | Op::Lab(l) => (l.clone(), Some(0)),
                Op::Str(ps) => (format!("\"{}\"", ps.iter().map(|p| p.0.as_str()).collect::<String>()), None),
            };
            if j == 0 {
                let tight = text.starts_with(['#', '"']) && r.chance(1, 4);
                out.push_str(&blanks(r, if tight { 0 } else { 1 }, 3));
            } else {
                out.push_str(&blanks(r, 0, 2)); out.push(','); out.push_str(&blanks(r, 0, 2));
            }
            let at = out.len();
            out.push_str(&text);
            end = out.len();
            let _ = lab_off;
            ops.push(match op {
                Op::R(n) => i(*n),
                Op::IrImm(v) => L(vec![i(0), i(*v)]),
                Op::IrReg(n) => L(vec![i(1), i(*n)]),
                Op::Pc(v) => L(vec![i(0), i(*v)]),
                Op::PcLab(l) | Op::FillLab(l) => L(vec![i(1), lab_tree(l, at)]),
                Op::Off(v) => i(*v),
                Op::FillNum(v) => L(vec![i(0), i(v.rem_euclid(65536))]),
                Op::Str(ps) => chars(&ps.iter().map(|p| p.1.as_str()).collect::<String>()),
                Op::Lab(l) => lab_tree(l, at),
            });
        }
        if w.mnem == "NOP" && w.ops.is_empty() { ops.push(L(vec![i(0), i(0)])); }
        let mut body = vec![i(w.tag)];
        body.extend(w.pre.iter().map(|x| i(*x)));
        body.extend(ops);
        stmts.push(L(vec![L(labs), L(vec![i(w.dir as u8), L(body)]), iu(start), iu(end)]));
        out.push_str(&blanks(r, 0, 2));
        if st.comments && r.chance(1, 3) { out.push_str(&comment(r)); }
        if k + 1 < prog.len() || r.chance(3, 4) { eol(r, &mut out); }
    }
    if r.chance(1, 2) { filler(r, &mut out); }
    (out, ok(vec![L(stmts)]))
}

// ------------------------------------------------------------------------------------------
// assemblable programs for the metamorphic check
// ------------------------------------------------------------------------------------------
fn gen_assemblable(r: &mut Rng) -> Vec<WStmt> {
    let cfg = GenCfg { ascii_labels: r.chance(1, 2), alphabet_strings: false };
    let n = 1 + r.below(14) as usize;
    // distinct labels (the assembler compares them case-insensitively)
    let mut names: Vec<String> = vec![];
    while names.len() < 4 {
        let l = gen_label(r, cfg.ascii_labels);
        if !names.iter().any(|x| x.to_uppercase() == l.to_uppercase()) { names.push(l); }
    }
    let mut prog = vec![gen_stmt(r, &[], &cfg, Some(N_INSTR_FORMS))]; // .orig
    prog[0].labels.clear();
    prog[0].ops = vec![Op::Off(0x3000 + r.below(0x100) as i64)];
    let mut free = names.clone();
    for _ in 0..n {
        let f = loop {
            let f = r.below(FORMS.len() as u64) as usize;
            if !matches!(FORMS[f].0, ".orig" | ".end" | ".external") { break f; }
        };
        let mut s = gen_stmt(r, &names, &cfg, Some(f));
        s.labels.clear();
        if !free.is_empty() && r.chance(1, 2) { s.labels.push(free.remove(0)); }
        for op in s.ops.iter_mut() {
            match op {
                Op::PcLab(l) | Op::FillLab(l) | Op::Lab(l) => *l = r.pick(&names).clone(),
                Op::Off(v) if s.mnem == ".blkw" => *v = 1 + r.below(6) as i64,
                _ => {}
            }
        }
        prog.push(s);
    }
    // every referenced label must be defined: attach the unused names to trailing fills
    for l in free { let mut s = gen_stmt(r, &[], &cfg, Some(N_INSTR_FORMS + 1)); s.labels = vec![l]; s.ops = vec![Op::FillNum(7)]; prog.push(s); }
    let mut e = gen_stmt(r, &[], &cfg, Some(N_INSTR_FORMS + 4)); e.labels.clear(); prog.push(e);
    prog
}
fn assemble_view(src: &str) -> Result<(Vec<(u16, Option<u16>)>, Vec<(String, u16, bool)>), String> {
    let ast = parse_ast(src).map_err(|e| format!("parse: {e}"))?;
    let obj = lc3_ensemble::asm::assemble_debug(ast, src).map_err(|e| format!("asm: {e}"))?;
    let img: Vec<_> = obj.addr_iter().collect();
    let mut labels: Vec<_> = obj.symbol_table().map(|s| s.label_iter().map(|(n, a, e)| (n.to_string(), a, e)).collect()).unwrap_or_default();
    labels.sort();
    Ok((img, labels))
}

// ------------------------------------------------------------------------------------------
// malformed stream
// ------------------------------------------------------------------------------------------
const HOT: [char; 44] = ['"', '\\', '\n', '\r', ';', ':', ',', '.', '#', '-', 'x', 'X', 'R', 'r', '0', '7', '8', '9', 'a', 'F', 'g', '_', ' ', '\t',
    'é', 'ſ', 'ı', '٣', '²', '€', '𐀀', '\0', 'n', 't', 'A', 'D', 'd', 'L', 'S', 'T', 'I', 'ﬁ', '+', '\u{301}'];
fn rand_char(r: &mut Rng) -> char {
    match r.below(10) {
        0 => loop { if let Some(c) = char::from_u32(r.below(0x11_0000) as u32) { break c; } },
        1 => loop { if let Some(c) = char::from_u32(r.below(0x3000) as u32) { break c; } },
        2 => (r.below(128) as u8) as char,
        _ => *r.pick(&HOT),
    }
}
fn rand_text(r: &mut Rng, max: u64) -> String { (0..r.below(max + 1)).map(|_| rand_char(r)).collect() }
const SNIPPETS: [&str; 24] = ["ADD R0, R1, ", ".stringz \"", ".fill ", "LD R1, ", ".orig ", ".blkw ", "TRAP ", "x-", "#-", "##", "-#", "R9", "\"\\",
    ".ſtringz \"a\"", ".ﬁll 1", "ldı R0, a", "puſh", "\r\n", "BRnzp ", ".external ", "LDR R0,R0,", "NOP ", ": ", "\\\""];
fn mutate(r: &mut Rng, s: &str) -> String {
    if r.chance(1, 4) {
        // byte-level: the result is re-read as UTF-8 with replacement characters
        let mut b = s.as_bytes().to_vec();
        for _ in 0..1 + r.below(3) {
            let n = b.len() as u64;
            match r.below(4) {
                0 if n > 0 => { let k = r.below(n) as usize; b[k] = r.next() as u8; }
                1 if n > 0 => { let k = r.below(n) as usize; b.remove(k); }
                2 => { let k = r.below(n + 1) as usize; b.insert(k, r.next() as u8); }
                _ if n > 0 => { let k = r.below(n) as usize; b[k] ^= 1 << r.below(8); }
                _ => {}
            }
        }
        return String::from_utf8_lossy(&b).into_owned();
    }
    let mut c: Vec<char> = s.chars().collect();
    for _ in 0..1 + r.below(3) {
        let n = c.len() as u64;
        match r.below(6) {
            0 if n > 0 => { c.remove(r.below(n) as usize); }
            1 => { let k = r.below(n + 1) as usize; c.insert(k, rand_char(r)); }
            2 if n > 0 => { let k = r.below(n) as usize; c[k] = rand_char(r); }
            3 if n > 1 => { let a = r.below(n) as usize; let b = r.below(n) as usize; c.swap(a, b); }
            4 => { let k = r.below(n + 1) as usize; let sn: Vec<char> = r.pick(&SNIPPETS).chars().collect(); for (j, ch) in sn.into_iter().enumerate() { c.insert(k + j, ch); } }
            _ if n > 0 => { let a = r.below(n) as usize; let l = r.below((n - a as u64).min(8) + 1) as usize; c.drain(a..a + l); }
            _ => {}
        }
    }
    c.into_iter().collect()
}
fn huge_number(r: &mut Rng) -> String {
    let n = 1 + r.below(45);
    let hexy = r.chance(1, 2);
    let digs: String = (0..n).map(|_| if hexy { *r.pick(&['0', '1', '9', 'a', 'F', 'f', '7']) } else { (b'0' + r.below(10) as u8) as char }).collect();
    let pre = *r.pick(&["", "#", "-", "#-", "x", "X", "x-", "X-", "##", "-#", "R", "r"]);
    let post = *r.pick(&["", "", "", "g", "é", "_", "x", "-1", "٣"]);
    let ctx = *r.pick(&["", "", ".fill ", "ADD R0,R0,", ".orig ", ".blkw ", "TRAP ", "LDR R1,R2,"]);
    format!("{ctx}{pre}{digs}{post}")
}
fn escape_cases() -> Vec<String> {
    // every string of length <= 4 over a small alphabet after an opening quote, in three contexts
    let al = ['\\', '"', 'a', 'é', '\n', '\r', 'n'];
    let mut v = vec![];
    let mut cur: Vec<Vec<char>> = vec![vec![]];
    for _ in 0..4 {
        let mut next = vec![];
        for c in &cur { for a in al { let mut d = c.clone(); d.push(a); next.push(d); } }
        for d in &next {
            let body: String = d.iter().collect();
            v.push(format!("\"{body}"));
            if d.len() <= 3 { v.push(format!(".stringz \"{body}")); v.push(format!("L .STRINGZ \"x{body}\n.end")); }
        }
        cur = next;
    }
    for tail in ["", "\n", "\r\n", "\r", "\\", "\\\n", "\\\r\n", "\\\r", "\\é", "\\é\"", "\\€\" ; c", "\\𐀀\"\n", "\\\u{301}\"", "\\\\", "\\\\\"", "\\\"", "\\\"\""] {
        v.push(format!(".stringz \"abc{tail}"));
        v.push(format!("A: .stringz \"{tail}\nHALT"));
    }
    v
}
fn big_literals(r: &mut Rng) -> Vec<String> {
    let mut v = vec![];
    for total in [65533usize, 65534, 65535, 65536] {
        // ASCII only; with 2- and 3-byte characters; with escapes that shrink (\n) or keep (\e) their size
        v.push(format!(".stringz \"{}\"", "a".repeat(total)));
        let k = r.below(100) as usize;
        let mut s = "é".repeat(k); s.push_str(&"b".repeat(total - 2 * k));
        v.push(format!(".stringz \"{s}\""));
        let mut s = "\\n".repeat(k); s.push_str(&"c".repeat(total - k));   // value length = total
        v.push(format!("L .stringz \"{s}\" ; {total}"));
        let mut s = "\\q".repeat(k); s.push_str(&"€".repeat(3)); s.push_str(&"d".repeat(total - 2 * k - 9));
        v.push(format!(".stringz \"{s}\"\n.end"));
    }
    v.push(format!(".stringz \"{}", "z".repeat(70000)));
    v
}

// ------------------------------------------------------------------------------------------
// oracles
// ------------------------------------------------------------------------------------------
fn text_tree(s: &str) -> Tree { chars(s) }

/// C04 on one text; returns the result tree (also the correspondence output)
pub fn check_c04(ctx: &Ctx, s: &str, stream: &str) -> Tree {
    let t = parse_tree(s);
    let replay = || format!("parse.ast\t{}", text_tree(s));
    let show = || -> String { let e: String = s.escape_debug().collect(); if e.len() > 160 { format!("{}… ({} bytes)", e.chars().take(160).collect::<String>(), s.len()) } else { e } };
    if t == panic() {
        let loc = crate::LAST_PANIC.with(|p| p.borrow().clone());
        ctx.fail("C04", "parse_panics", format!("parse_ast panics at {loc} on \"{}\" ({stream})", show()), replay());
    } else if let Tree::L(v) = &t {
        if v[0] == i(1) {
            let (a, b) = (v[2].as_i().unwrap(), v[3].as_i().unwrap());
            let inside = 0 <= a && a <= b && b <= s.len() as i128;
            if !inside || !s.is_char_boundary(a as usize) || !s.is_char_boundary(b as usize) {
                ctx.fail("C04", "error_span_outside", format!("parse_ast error span {a}..{b} not inside 0..={} on \"{}\" ({stream})", s.len(), show()), replay());
            }
            ctx.stat(&format!("err.{}", v[1].as_i().unwrap()), 1);
        } else { ctx.stat("ok", 1); }
    }
    t
}

pub fn run(ctx: &Ctx, replay: Option<&str>) {
    if let Some(rp) = replay {
        if let Some((_, t)) = rp.split_once('\t') {
            if let Some(s) = parse(t).and_then(|t| t.to_string_lossy_chars()) {
                let out = check_c04(ctx, &s, "replay");
                ctx.case("parse.ast", &text_tree(&s), &out);
            }
        }
        return;
    }
    let mut r = Rng::new(ctx.seed).fork(3);

    // ---- C03: rendered programs, written == parsed ----
    let n_prog = ctx.n(6_000, 400_000);
    for k in 0..n_prog {
        let cfg = GenCfg { ascii_labels: r.chance(1, 2), alphabet_strings: r.chance(1, 2) };
        let m = if r.chance(1, 10) { 25 } else { 6 };
        let prog = gen_program(&mut r, &cfg, m);
        let st = Style::any(&mut r);
        let (text, want) = render(&mut r, &prog, &st);
        let got = check_c04(ctx, &text, "rendered");
        ctx.case("parse.ast", &text_tree(&text), &got);
        if got != want {
            let e: String = text.escape_debug().collect();
            ctx.fail("C03", "written_ne_parsed", format!("parse_ast(\"{e}\") = {got}, written statements {want}"), format!("parse.ast\t{}", text_tree(&text)));
        }
        ctx.stat("rendered.stmts", prog.len() as i64);
        if k < 2 { ctx.sample(format!("rendered {:?} -> {}", text, got)); }
    }

    // ---- C03: metamorphic pairs through the real assembler ----
    let n_meta = ctx.n(1_500, 80_000);
    let mut asm_ok = 0;
    for _ in 0..n_meta {
        let prog = gen_assemblable(&mut r);
        let (s1, st2) = (Style::any(&mut r), Style::any(&mut r));
        let (t1, _) = render(&mut r, &prog, &s1);
        let (t2, _) = render(&mut r, &prog, &st2);
        let (a, b) = (catch(|| assemble_view(&t1)), catch(|| assemble_view(&t2)));
        if let Some(Ok(_)) = &a { asm_ok += 1; }
        if a != b || a.is_none() {
            ctx.fail("C03", "layout_changes_assembly", format!("same program, two layouts, different assembly: {:?} vs {:?}: {:?} / {:?}", t1, t2, a.map(|x| x.map(|y| y.0.len())), b.map(|x| x.map(|y| y.0.len()))), format!("parse.ast\t{}", text_tree(&t1)));
        }
        let g1 = parse_tree(&t1);
        ctx.case("parse.ast", &text_tree(&t1), &g1);
    }
    ctx.stat("metamorphic.pairs", n_meta as i64);
    ctx.stat("metamorphic.assembled_ok", asm_ok);

    // ---- C04: malformed stream ----
    let cfg = GenCfg { ascii_labels: false, alphabet_strings: false };
    let n_rand = ctx.n(12_000, 1_500_000);
    for _ in 0..n_rand {
        let s = match r.below(4) {
            0 => rand_text(&mut r, 12),
            1 => rand_text(&mut r, 60),
            2 => { let a = r.pick(&SNIPPETS).to_string(); let b = rand_text(&mut r, 8); let c = r.pick(&SNIPPETS).to_string(); format!("{a}{b}{c}") }
            _ => huge_number(&mut r),
        };
        let t = check_c04(ctx, &s, "random");
        ctx.case("parse.ast", &text_tree(&s), &t);
    }
    let n_mut = ctx.n(8_000, 800_000);
    for _ in 0..n_mut {
        let prog = gen_program(&mut r, &cfg, 4);
        let st = Style::any(&mut r);
        let (text, _) = render(&mut r, &prog, &st);
        let s = mutate(&mut r, &text);
        let t = check_c04(ctx, &s, "mutated");
        ctx.case("parse.ast", &text_tree(&s), &t);
    }
    for s in escape_cases() {
        let t = check_c04(ctx, &s, "escape");
        ctx.case("parse.ast", &text_tree(&s), &t);
        let lt = lex_tree(&s);
        ctx.case("lex.tokens", &text_tree(&s), &lt);
    }
    for s in big_literals(&mut r) {
        let t = check_c04(ctx, &s, "big-literal");
        ctx.case("parse.ast", &text_tree(&s), &t);
    }
    // a few token streams of rendered programs (comments and spans included)
    for _ in 0..ctx.n(500, 40_000) {
        let prog = gen_program(&mut r, &cfg, 3);
        let st = Style::any(&mut r);
        let (text, _) = render(&mut r, &prog, &st);
        let s = if r.chance(1, 2) { mutate(&mut r, &text) } else { text };
        ctx.case("lex.tokens", &text_tree(&s), &lex_tree(&s));
    }

    // ---- the model's upper-casing table: which characters can upper-case to ASCII letters ----
    // (Ident::from_str and the directive match use `str::to_uppercase`; the model lists the
    // non-ASCII characters whose mapping is ASCII-only and treats every other one as non-ASCII)
    let listed: [(u32, &str); 10] = [(223, "SS"), (305, "I"), (383, "S"), (64256, "FF"), (64257, "FI"), (64258, "FL"), (64259, "FFI"), (64260, "FFL"), (64261, "ST"), (64262, "ST")];
    for c in (128..0x11_0000u32).filter_map(char::from_u32) {
        let u: String = c.to_uppercase().collect();
        let model = listed.iter().find(|x| x.0 == c as u32).map(|x| x.1);
        if u.is_ascii() != model.is_some() || model.is_some_and(|m| m != u) {
            ctx.fail("C04", "uppercase_table", format!("char U+{:04X} upper-cases to {u:?}; the model's table has {model:?}", c as u32), format!("parse.ast\t{}", text_tree(&c.to_string())));
        }
    }
    for w in ["ldı R0, a", "ſt R0, a", "stı R1, #1", "jſr a", "putſ", "rtı", "ın", ".ſtringz \"a\"", ".ﬁll 1", ".ﬁLL xFFFF", ".ORıG x3000", ".external ﬆ", "ﬆ R0, a", "puﬅ", "a ßt R0,#1", ".ßtringz \"\"", "BRnzp ı", "ADD R0,R0,Rı", "Kelvin K", "ﬀ .blkw 1"] {
        let t = check_c04(ctx, w, "uppercase");
        ctx.case("parse.ast", &text_tree(w), &t);
        ctx.case("lex.tokens", &text_tree(w), &lex_tree(w));
    }
}
