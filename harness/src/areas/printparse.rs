//! C36 — printed statements reparse to the same statement.
//!
//! Statements are obtained by parsing programs rendered from generated statement lists (every
//! instruction and directive form, boundary operand values, labels with non-ASCII word
//! characters, string literals over the property's alphabet and beyond).  For every parsed
//! statement `s`:
//!   correspondence  `print.stmt` (statement -> `format!("{s}")`) and `parse.ast` on the printed text;
//!   direct oracle   `parse_ast(&s.to_string())` is exactly one statement with the same labels,
//!                   nucleus and operands (source positions aside), whenever the string
//!                   literals of `s` stay within printable ASCII, TAB, LF, CR, NUL.
use super::parse::{gen_program, gen_stmt, parse_tree, render, GenCfg, Style};
use crate::astwire::t_stmt;
use crate::ctx::{catch, Ctx};
use crate::rng::Rng;
use crate::tree::*;
use lc3_ensemble::ast::asm::{Directive, Stmt, StmtKind};
use lc3_ensemble::parse::parse_ast;

/// the statement without source positions: label starts and the statement span erased
fn shape(s: &Stmt) -> Tree {
    let t = t_stmt(s);
    let v = t.as_l().unwrap();
    let name = |l: &Tree| l.as_l().unwrap()[0].clone();
    let pc = |o: &Tree| { let o = o.as_l().unwrap(); if o[0] == i(1) { L(vec![i(1), name(&o[1])]) } else { L(o.to_vec()) } };
    let labels = L(v[0].as_l().unwrap().iter().map(name).collect());
    let n = v[1].as_l().unwrap();
    let body = n[1].as_l().unwrap();
    let tag = body[0].as_i().unwrap();
    let mut b: Vec<Tree> = body.to_vec();
    if n[0] == i(0) {
        match tag { 2 | 6 | 7 | 9 | 13 | 14 => b[2] = pc(&b[2]), 4 | 17 => b[1] = pc(&b[1]), _ => {} }
    } else {
        match tag { 1 => b[1] = pc(&b[1]), 5 => b[1] = name(&b[1]), _ => {} }
    }
    L(vec![labels, L(vec![n[0].clone(), L(b)])])
}
fn in_alphabet(s: &Stmt) -> bool {
    match &s.nucleus {
        StmtKind::Directive(Directive::Stringz(x)) => x.chars().all(|c| (' '..='~').contains(&c) || matches!(c, '\t' | '\n' | '\r' | '\0')),
        _ => true,
    }
}
fn ascii_strings(s: &Stmt) -> bool {
    match &s.nucleus { StmtKind::Directive(Directive::Stringz(x)) => x.is_ascii(), _ => true }
}

fn check_stmt(ctx: &Ctx, s: &Stmt) {
    let Some(text) = catch(|| s.to_string()) else {
        ctx.fail("C36", "print_panics", format!("Display panics on {s:?}"), format!("print.stmt\t{}", t_stmt(s)));
        return;
    };
    // correspondence of the printer (the model's `{:?}` escaping is exact on ASCII strings)
    if ascii_strings(s) { ctx.case("print.stmt", &t_stmt(s), &ok(vec![chars(&text)])); } else { ctx.stat("print.non_ascii_string", 1); }
    let back = parse_tree(&text);
    ctx.case("parse.ast", &chars(&text), &back);
    let again = catch(|| parse_ast(&text));
    let same = match &again { Some(Ok(v)) if v.len() == 1 => shape(&v[0]) == shape(s), _ => false };
    if in_alphabet(s) {
        ctx.stat("roundtrip.checked", 1);
        if !same {
            ctx.fail("C36", "print_parse_differs", format!("{s:?} prints as {text:?}, which parses to {back}"), format!("print.stmt\t{}", t_stmt(s)));
        }
    } else {
        ctx.stat(if same { "roundtrip.outside_alphabet_ok" } else { "roundtrip.outside_alphabet_differs" }, 1);
    }
}

pub fn run(ctx: &Ctx, _replay: Option<&str>) {
    // replay: every case derives from the seed, the whole area is simply re-run
    let mut r = Rng::new(ctx.seed).fork(7);
    let mut n_stmt = 0i64;
    // every form, several times, with boundary-heavy operands
    let forms = 39usize;
    for round in 0..ctx.n(40, 2_500) {
        for f in 0..forms {
            let cfg = GenCfg { ascii_labels: round % 3 == 0, alphabet_strings: round % 4 != 3 };
            let pool: Vec<String> = vec![];
            let w = gen_stmt(&mut r, &pool, &cfg, Some(f));
            let st = Style::any(&mut r);
            let (text, _) = render(&mut r, &[w], &st);
            if let Some(Ok(v)) = catch(|| parse_ast(&text)) { for s in &v { check_stmt(ctx, s); n_stmt += 1; } }
        }
    }
    // whole programs
    for _ in 0..ctx.n(1_500, 160_000) {
        let cfg = GenCfg { ascii_labels: r.chance(1, 2), alphabet_strings: r.chance(3, 4) };
        let prog = gen_program(&mut r, &cfg, 6);
        let st = Style::any(&mut r);
        let (text, _) = render(&mut r, &prog, &st);
        if let Some(Ok(v)) = catch(|| parse_ast(&text)) { for s in &v { check_stmt(ctx, s); n_stmt += 1; } }
    }
    // string literals character by character: every character of the alphabet (and every other
    // ASCII character) alone and next to a backslash / quote
    for c in 0u8..128 {
        for ctxs in [format!("{}", c as char), format!("\\{}", c as char), format!("{}\"", c as char), format!("a{}\\\\", c as char)] {
            // the text inside the quotes is taken as the *value*: build the statement directly
            let s = Stmt { labels: vec![], nucleus: StmtKind::Directive(Directive::Stringz(ctxs)), span: 0..0 };
            // only statements the parser can produce: a value is producible iff some literal denotes it
            // (every string without LF is; LF needs the \n escape, which the parser also accepts)
            check_stmt(ctx, &s); n_stmt += 1;
        }
    }
    ctx.stat("statements", n_stmt);
}
