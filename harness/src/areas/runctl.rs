//! C13 — run, run_with_limit, run_while, step_over, step_out against repeated single steps.
//!
//! Every case is one machine state plus a sequence of run-style calls (breakpoint set, call kind,
//! MCR-clear schedule, lock pattern).  Three things happen:
//!  * the calls are made on the implementation; result, `hit_halt()/hit_breakpoint()`, the number
//!    of loop iterations and the full observable state after every call are the correspondence
//!    case for the Coq model (`run.call`);
//!  * direct oracle (independent of the model): a second, identical simulator is advanced by
//!    `step_in` only, until the documented stop condition of the call first holds; it must end in
//!    the same state (registers, PC, PSR, memory, devices, instruction count, frame depth, MCR)
//!    with the same stop reason after the same number of steps;
//!  * segment splitting: run_with_limit(a1); ...; run_with_limit(ak) against run_with_limit(sum).
//!
//! External MCR clears are deterministic: an extra device (polled once at the start of every
//! instruction, i.e. between the loop's tests and the instruction) clears the MCR at chosen poll
//! numbers; `run_while` cases additionally clear it from the tripwire closure.  The same device
//! is the watchdog that ends runs of non-terminating programs.
use crate::ctx::{catch, par_for, Ctx};
use crate::rng::Rng;
use crate::simwire::*;
use crate::tree::*;
use crate::areas::sim::{gen_setup, pick_addr, pick_instr};
use lc3_ensemble::sim::debug::{Breakpoint, Comparator};
use lc3_ensemble::sim::device::InterruptFromFn;
use lc3_ensemble::sim::Simulator;
use std::collections::VecDeque;
use std::sync::atomic::{AtomicU64, Ordering::Relaxed};
use std::sync::{Arc, Mutex};

const HARD: u64 = 200_000; // a run that polls this often is a harness bug: panic instead of hanging
const NONE: u64 = u64::MAX;

// ------------------------------------------------------------------ MCR-clear device
pub struct Ctl { polls: AtomicU64, once: AtomicU64, from: AtomicU64 }
impl Ctl {
    fn arm(&self, once: u64, from: u64) { self.polls.store(0, Relaxed); self.once.store(once, Relaxed); self.from.store(from, Relaxed); }
    fn polls(&self) -> u64 { self.polls.load(Relaxed) }
    fn clears_at(&self, p: u64) -> bool { p == self.once.load(Relaxed) || p >= self.from.load(Relaxed) }
}
fn attach(m: &mut Machine) -> Arc<Ctl> {
    let ctl = Arc::new(Ctl { polls: AtomicU64::new(0), once: AtomicU64::new(NONE), from: AtomicU64::new(NONE) });
    let c = ctl.clone();
    let mcr = m.sim.mcr().clone();
    let dev = InterruptFromFn::new(move || {
        let p = c.polls.fetch_add(1, Relaxed);
        if c.clears_at(p) { mcr.store(false, Relaxed); }
        if p > HARD { panic!("runctl: runaway run"); }
        None
    });
    let _ = m.sim.device_handler.add_device(dev, &[]);
    m.extras.push(ExtraH::Script(Arc::new(Mutex::new(VecDeque::new())))); // printed as (4 0), like the model's DScript []
    ctl
}
fn state_tree(st: &Setup, m: &mut Machine) -> Tree {
    let mut t = t_setup(st, m);
    if let L(v) = &mut t { if let Some(L(devs)) = v.last_mut() { devs.push(L(vec![i(4), L(vec![])])); } }
    t
}

// ------------------------------------------------------------------ breakpoints, tripwires, calls
#[derive(Clone, Copy, Debug, PartialEq)]
pub enum Bp { Pc(u16), Reg(u8, u8, u16), Mem(u16, u8, u16) } // comparator tag 0..7, value
fn comparator(tag: u8, v: u16) -> Comparator {
    match tag { 0 => Comparator::Never, 1 => Comparator::Lt(v), 2 => Comparator::Eq(v), 3 => Comparator::Le(v),
                4 => Comparator::Gt(v), 5 => Comparator::Ne(v), 6 => Comparator::Ge(v), _ => Comparator::Always }
}
fn install(sim: &mut Simulator, bps: &[Bp]) {
    sim.breakpoints.clear();
    for b in bps {
        sim.breakpoints.insert(match *b {
            Bp::Pc(a) => Breakpoint::PC(a),
            Bp::Reg(r, t, v) => Breakpoint::Reg { reg: reg(r), value: comparator(t, v) },
            Bp::Mem(a, t, v) => Breakpoint::Mem { addr: a, value: comparator(t, v) },
        });
    }
}
fn t_bp(b: &Bp) -> Tree {
    match *b {
        Bp::Pc(a) => L(vec![i(0), i(a)]),
        Bp::Reg(r, t, v) => L(vec![i(1), i(r), L(vec![i(t), i(v)])]),
        Bp::Mem(a, t, v) => L(vec![i(2), i(a), L(vec![i(t), i(v)])]),
    }
}
/// the oracle's own reading of the documentation of `Comparator` (written on `Ordering`)
fn oracle_cmp(tag: u8, v: u16, operand: u16) -> bool {
    use std::cmp::Ordering::*;
    let o = operand.cmp(&v);
    match tag { 0 => false, 1 => o == Less, 2 => o == Equal, 3 => o != Greater, 4 => o == Greater, 5 => o != Equal, 6 => o != Less, _ => true }
}
fn oracle_bp(b: &Bp, sim: &Simulator) -> bool {
    match *b {
        Bp::Pc(a) => sim.pc == a,
        Bp::Reg(r, t, v) => oracle_cmp(t, v, sim.reg_file[reg(r)].get()),
        Bp::Mem(a, t, v) => oracle_cmp(t, v, sim.mem[a].get()),
    }
}

#[derive(Clone, Copy, Debug, PartialEq)]
pub enum Tw { True, InstrNe(u64), PcNe(u16), RegNe(u8, u16), IdxLt(u64), Count(u64, u64) }
fn tw_eval(t: &Tw, idx: u64, s: &Simulator) -> bool {
    match *t {
        Tw::True => true,
        Tw::InstrNe(k) => s.instructions_run != k,
        Tw::PcNe(a) => s.pc != a,
        Tw::RegNe(r, v) => s.reg_file[reg(r)].get() != v,
        Tw::IdxLt(n) => idx < n,
        Tw::Count(i0, n) => s.instructions_run.wrapping_sub(i0) < n,
    }
}
fn t_tw(t: &Tw) -> Tree {
    match *t {
        Tw::True => L(vec![i(0)]), Tw::InstrNe(k) => L(vec![i(1), I(k as i128)]), Tw::PcNe(a) => L(vec![i(2), i(a)]),
        Tw::RegNe(r, v) => L(vec![i(3), i(r), i(v)]), Tw::IdxLt(n) => L(vec![i(4), I(n as i128)]),
        Tw::Count(a, n) => L(vec![i(5), I(a as i128), I(n as i128)]),
    }
}
#[derive(Clone, Copy, Debug, PartialEq)]
pub enum Kind { Run, Limit(u64), Over, Out, While(Tw), StepIn }
fn t_kind(k: &Kind) -> Tree {
    match k {
        Kind::Run => L(vec![i(0)]), Kind::Limit(n) => L(vec![i(1), I(*n as i128)]), Kind::Over => L(vec![i(2)]),
        Kind::Out => L(vec![i(3)]), Kind::While(t) => L(vec![i(4), t_tw(t)]), Kind::StepIn => L(vec![i(5)]),
    }
}
fn kind_name(k: &Kind) -> &'static str {
    match k { Kind::Run => "run", Kind::Limit(_) => "limit", Kind::Over => "over", Kind::Out => "out", Kind::While(_) => "while", Kind::StepIn => "step_in" }
}

#[derive(Clone, Debug)]
pub struct Call { bps: Vec<Bp>, kind: Kind, once: u64, from: u64, tw_clear: u64, kbl: bool, dsl: bool }

fn class_of(sim: &Simulator) -> u8 { if sim.hit_halt() { 1 } else if sim.hit_breakpoint() { 2 } else { 0 } }

// ------------------------------------------------------------------ the call on the implementation
fn real_call(m: &mut Machine, ctl: &Ctl, c: &Call) -> Outcome {
    install(&mut m.sim, &c.bps);
    if c.kind == Kind::StepIn { ctl.arm(NONE, NONE) } else { ctl.arm(c.once, c.from) }
    let kbh = m.kb.clone();
    let dsh = m.ds.clone();
    let _g1 = if c.kbl { kbh.as_ref().map(|b| b.write().unwrap_or_else(|e| e.into_inner())) } else { None };
    let _g2 = if c.dsl { dsh.as_ref().map(|b| b.write().unwrap_or_else(|e| e.into_inner())) } else { None };
    let sim = &mut m.sim;
    let r = catch(|| match c.kind {
        Kind::Run => sim.run(),
        Kind::Limit(n) => sim.run_with_limit(n),
        Kind::Over => sim.step_over(),
        Kind::Out => sim.step_out(),
        Kind::StepIn => sim.step_in(),
        Kind::While(tw) => {
            let mut idx = 0u64;
            let clear = c.tw_clear;
            sim.run_while(|s| {
                let go = tw_eval(&tw, idx, s);
                if idx == clear { s.mcr().store(false, Relaxed); }
                idx += 1;
                go
            })
        }
    });
    match r { None => Outcome::Panic, Some(Ok(())) => Outcome::Ok, Some(Err(e)) => Outcome::Err(err_code(&e)) }
}

// ------------------------------------------------------------------ the twin: step_in only
fn timer_times(m: &Machine) -> Vec<Option<(bool, u32)>> {
    m.extras.iter().map(|x| match x {
        ExtraH::Timer(t) => { let t = t.lock().unwrap(); Some((t.enabled, t.get_remaining())) }
        _ => None,
    }).collect()
}
/// one `step_in` on the twin; returns the outcome and the `env` the model needs for this step
fn twin_step(t: &mut Machine, kbl: bool, dsl: bool) -> (Outcome, Tree) {
    let before = timer_times(t);
    let kbh = t.kb.clone();
    let dsh = t.ds.clone();
    let r = {
        let _g1 = if kbl { kbh.as_ref().map(|b| b.write().unwrap_or_else(|e| e.into_inner())) } else { None };
        let _g2 = if dsl { dsh.as_ref().map(|b| b.write().unwrap_or_else(|e| e.into_inner())) } else { None };
        let sim = &mut t.sim;
        catch(|| sim.step_in())
    };
    let after = timer_times(t);
    let mut draws = vec![];
    for (b, a) in before.iter().zip(after.iter()) {
        if let (Some((true, 0)), Some((_, x))) = (b, a) { draws.push(i(*x)); }
    }
    let env = L(vec![b(kbl && t.kb.is_some()), b(dsl && t.ds.is_some()), L(draws)]);
    (match r { None => Outcome::Panic, Some(Ok(())) => Outcome::Ok, Some(Err(e)) => Outcome::Err(err_code(&e)) }, env)
}

pub struct Expect { out: Outcome, class: u8, steps: u64, iters: Vec<Tree>, why: &'static str,
                    /// access flags of the single steps, OR-ed per address (what a run's observer must hold: C28)
                    acc: std::collections::BTreeMap<u16, u8> }
fn take_acc(t: &mut Machine, acc: &mut std::collections::BTreeMap<u16, u8>) {
    for (a, f) in t.sim.observer.take_mem_accesses() { *acc.entry(a).or_insert(0) |= (f.read() as u8) | ((f.written() as u8) << 1) | ((f.modified() as u8) << 2); }
}

/// Advance the twin by single steps until the documented stop condition of the call holds.
fn oracle_call(t: &mut Machine, ctl: &Ctl, c: &Call, prev_class: u8) -> Expect {
    let dummy = L(vec![b(false), b(false), L(vec![b(false), b(false), L(vec![])])]);
    if c.kind == Kind::StepIn {
        ctl.arm(NONE, NONE);
        let (out, env) = twin_step(t, c.kbl, c.dsl);
        let mut acc = Default::default(); take_acc(t, &mut acc);
        return Expect { out, class: prev_class, steps: 1, iters: vec![L(vec![b(false), b(false), env])], why: "step_in", acc };
    }
    let d0 = t.sim.frame_stack.len();
    if c.kind == Kind::Out && d0 == 0 {
        return Expect { out: Outcome::Ok, class: prev_class, steps: 0, iters: vec![], why: "out_noop", acc: Default::default() };
    }
    ctl.arm(c.once, c.from);
    t.sim.mcr().store(true, Relaxed);
    let mut executed = 0u64; // instructions completed in this call, counted by the oracle itself
    let mut idx = 0u64;
    let mut iters = vec![];
    let mut acc = Default::default();
    let _ = t.sim.observer.take_mem_accesses().count();
    let (out, class, why) = loop {
        if !t.sim.mcr().load(Relaxed) { break (Outcome::Ok, 1, "mcr"); }
        let depth = t.sim.frame_stack.len();
        let go = match c.kind {
            Kind::Run => true,
            Kind::Limit(max) => executed < max,
            Kind::Over => idx == 0 || d0 < depth,
            Kind::Out => idx == 0 || d0 <= depth,
            Kind::While(tw) => tw_eval(&tw, idx, &t.sim),
            Kind::StepIn => unreachable!(),
        };
        if !go { break (Outcome::Ok, 0, "tripwire"); }
        let mut mid = ctl.clears_at(idx);
        if matches!(c.kind, Kind::While(_)) && idx == c.tw_clear { t.sim.mcr().store(false, Relaxed); mid = true; }
        let ib = t.sim.instructions_run;
        let (out, env) = twin_step(t, c.kbl, c.dsl);
        take_acc(t, &mut acc);
        iters.push(L(vec![b(false), b(mid), env]));
        idx += 1;
        match out { Outcome::Panic => break (out, 0, "panic"), Outcome::Err(_) => break (out, 0, "error"), Outcome::Ok => {} }
        if t.sim.instructions_run != ib { executed += 1; }
        else if t.sim.frame_stack.len() == depth { break (Outcome::Ok, 1, "halt"); } // nothing entered, nothing executed: virtual HALT
        if c.bps.iter().any(|x| oracle_bp(x, &t.sim)) { break (Outcome::Ok, 2, "breakpoint"); }
    };
    if out != Outcome::Panic { t.sim.mcr().store(false, Relaxed); }
    iters.push(dummy);
    Expect { out, class, steps: idx, iters, why, acc }
}

/// everything but the access observer
fn arch_state(m: &mut Machine) -> Tree {
    let sim = &m.sim;
    let regs = list(0..8u8, |r| t_word(sim.reg_file[reg(r)]));
    let frames = opt(sim.frame_stack.frames(), |fs| list(fs.iter(), |f| L(vec![
        i(f.caller_addr), i(f.callee_addr), i(match f.frame_type { lc3_ensemble::sim::frame::FrameType::Subroutine => 0, lc3_ensemble::sim::frame::FrameType::Trap => 1, lc3_ensemble::sim::frame::FrameType::Interrupt => 2 }), opt(f.frame_ptr, t_word), list(f.arguments.iter(), |w| t_word(*w))])));
    let head = vec![i(sim.pc), i(sim.psr().get()), t_word(sim.verif_saved_sp()), regs, b(sim.verif_prefetch()),
        I(sim.instructions_run as i128), I(sim.frame_stack.len() as i128), b(sim.mcr().load(Relaxed)), frames];
    let devs = m.t_devs();
    let mut v = head; v.push(devs);
    L(v)
}
fn same_memory(a: &Machine, b: &Machine) -> Option<u16> {
    (0..=u16::MAX).find(|&x| a.sim.mem[x] != b.sim.mem[x])
}

// ------------------------------------------------------------------ generators
fn add_i(dr: u16, sr: u16, imm: i16) -> u16 { 0x1000 | dr << 9 | sr << 6 | 0x20 | (imm as u16 & 0x1F) }
fn and_i(dr: u16, sr: u16, imm: i16) -> u16 { 0x5000 | dr << 9 | sr << 6 | 0x20 | (imm as u16 & 0x1F) }
fn br(nzp: u16, off: i16) -> u16 { nzp << 9 | (off as u16 & 0x1FF) }
fn jsr(off: i16) -> u16 { 0x4800 | (off as u16 & 0x7FF) }
fn ldr(dr: u16, b: u16, off: i16) -> u16 { 0x6000 | dr << 9 | b << 6 | (off as u16 & 0x3F) }
fn str_(sr: u16, b: u16, off: i16) -> u16 { 0x7000 | sr << 9 | b << 6 | (off as u16 & 0x3F) }
fn st_(sr: u16, off: i16) -> u16 { 0x3000 | sr << 9 | (off as u16 & 0x1FF) }
fn ld(dr: u16, off: i16) -> u16 { 0x2000 | dr << 9 | (off as u16 & 0x1FF) }
fn sti(sr: u16, off: i16) -> u16 { 0xB000 | sr << 9 | (off as u16 & 0x1FF) }
fn lea(dr: u16, off: i16) -> u16 { 0xE000 | dr << 9 | (off as u16 & 0x1FF) }
const RET: u16 = 0xC1C0;
const HALT: u16 = 0xF025;
const RTI: u16 = 0x8000;

pub struct Prog { st: Setup, len: u16, cells: Vec<u16>, shape: &'static str }

fn base_setup(r: &mut Rng) -> Setup {
    let mut st = Setup::plain(match r.below(3) { 0 => 0, 1 => 0xFFFF, _ => r.u16() });
    st.strict = r.chance(1, 5);
    st.real = r.chance(1, 2);
    st.debug_frames = r.chance(1, 2);
    for k in 0..8 { st.regs[k] = (if r.chance(1, 2) { r.below(8) as u16 } else { r.u16() }, if r.chance(14, 15) { 0xFFFF } else { 0 }); }
    st.regs[6] = (0x4000 + r.below(16) as u16, 0xFFFF);
    st.instrs = if r.chance(1, 15) { u64::MAX - r.below(40) } else { r.below(100) };
    st.mcr = r.chance(1, 2);
    st
}
fn place(st: &mut Setup, at: u16, words: &[u16]) {
    for (k, w) in words.iter().enumerate() { st.overrides.push((at.wrapping_add(k as u16), (*w, 0xFFFF))); }
}
/// a timer whose handler is `ADD R5,R5,#1; RTI` in system space
fn add_timer(r: &mut Rng, st: &mut Setup) {
    let v = r.below(4) as u8;
    place(st, 0x1000, &[add_i(5, 5, 1), RTI]);
    st.overrides.push((0x180 + v as u16, (0x1000, 0xFFFF)));
    let lo = 1 + r.below(6) as u32;
    st.extras.push(Extra::Timer { enabled: true, lo, hi: lo + r.below(5) as u32, seed: r.next(), vect: 0x80 + v, prio: 1 + r.below(7) as u8 });
}
fn end_word(r: &mut Rng) -> u16 { match r.below(6) { 0 => br(7, -1), 1 => 0xD000, _ => HALT } }

/// main: counted loop around JSR F1; F_i saves R7 on the stack and calls F_{i+1}; the leaf stores to a cell
fn prog_nested(r: &mut Rng) -> Prog {
    let mut st = base_setup(r);
    let depth = 1 + r.below(4) as u16;
    let n = 1 + r.below(4) as i16;
    let f1 = 0x3010u16;
    let main = [and_i(0, 0, 0), add_i(0, 0, n), jsr((f1 as i16) - 0x3003), add_i(0, 0, -1), br(1, -3), end_word(r)];
    place(&mut st, 0x3000, &main);
    let cell = 0x3008u16;
    st.overrides.push((cell, (0, 0xFFFF)));
    for d in 0..depth {
        let at = f1 + 0x10 * d;
        if d + 1 < depth {
            place(&mut st, at, &[add_i(6, 6, -1), str_(7, 6, 0), add_i(1, 1, 1), jsr(0x10 - 4), ldr(7, 6, 0), add_i(6, 6, 1), RET]);
        } else {
            let w = [add_i(2, 2, 1), st_(2, (cell as i16) - (at as i16 + 2)), RET];
            place(&mut st, at, &w);
        }
    }
    if r.chance(1, 3) { add_timer(r, &mut st); }
    Prog { st, len: 0x10 * (depth + 1), cells: vec![cell, 0x4000, 0x3FFF], shape: "nested" }
}
/// character output loop through TRAP x21 (or PUTS / GETC+OUT) with a display attached
fn prog_trap(r: &mut Rng) -> Prog {
    let mut st = base_setup(r);
    let text: Vec<u16> = (0..1 + r.below(5)).map(|_| 0x41 + r.below(26) as u16).collect();
    let len;
    match r.below(4) {
        0 => { // PUTS
            let mut w = vec![lea(0, 2), 0xF022, end_word(r)];
            w.extend(&text); w.push(0);
            len = w.len() as u16; place(&mut st, 0x3000, &w);
        }
        1 => { // GETC; OUT; loop twice
            let w = [0xF020, 0xF021, 0xF020, 0xF021, end_word(r)];
            len = w.len() as u16; place(&mut st, 0x3000, &w);
            st.kb = Some(((0..r.below(3)).map(|_| 0x30 + r.below(10) as u8).collect(), r.chance(1, 4)));
        }
        _ => {
            let mut w = vec![lea(1, 6), ldr(0, 1, 0), br(2, 3), 0xF021, add_i(1, 1, 1), br(7, -5), end_word(r)];
            w.extend(&text); w.push(0);
            len = w.len() as u16; place(&mut st, 0x3000, &w);
        }
    }
    if r.chance(5, 6) { st.ds = Some(vec![]); }
    if r.chance(1, 4) { add_timer(r, &mut st); }
    Prog { st, len, cells: vec![0xFE04, 0xFE06, 0xFFFE, 0x2FFF, 0x2FFE], shape: "trap" }
}
/// counting loops: R0 counts down, R2 counts up and is stored to a cell; optionally nested
fn prog_count(r: &mut Rng) -> Prog {
    let mut st = base_setup(r);
    let n = 1 + r.below(15) as i16;
    let cell = 0x3010u16;
    st.overrides.push((cell, (r.below(4) as u16, 0xFFFF)));
    let w: Vec<u16> = if r.chance(1, 2) {
        vec![and_i(0, 0, 0), add_i(0, 0, n), and_i(2, 2, 0), add_i(2, 2, 1), st_(2, 0x10 - 5), add_i(0, 0, -1), br(1, -4), end_word(r)]
    } else {
        let m = 1 + r.below(5) as i16;
        vec![and_i(0, 0, 0), add_i(0, 0, n), and_i(2, 2, 0),
             and_i(1, 1, 0), add_i(1, 1, m), add_i(2, 2, 1), st_(2, 0x10 - 7), add_i(1, 1, -1), br(1, -4),
             add_i(0, 0, -1), br(1, -8), end_word(r)]
    };
    place(&mut st, 0x3000, &w);
    if r.chance(1, 3) { add_timer(r, &mut st); }
    Prog { st, len: w.len() as u16, cells: vec![cell], shape: "count" }
}
/// supervisor program that writes the MCR itself (clears it, or turns it on again every round)
fn prog_mcr(r: &mut Rng) -> Prog {
    let mut st = base_setup(r);
    st.psr = 0x0002;
    st.regs[0] = (if r.chance(1, 2) { 0x8000 } else { 0 }, 0xFFFF);
    let w = match r.below(3) {
        0 => vec![sti(0, 3), add_i(1, 1, 1), br(7, -3), HALT, 0xFFFE],
        1 => vec![add_i(1, 1, 1), add_i(1, 1, 1), sti(0, 2), add_i(2, 2, 1), br(7, -5), 0xFFFE],
        _ => vec![ld(3, 4), add_i(1, 1, 1), sti(0, 2), br(7, -3), HALT, 0xFFFE],
    };
    place(&mut st, 0x3000, &w);
    Prog { st, len: w.len() as u16, cells: vec![0xFFFE, 0x3005], shape: "mcr" }
}
fn prog_random(r: &mut Rng) -> Prog {
    let mut st = gen_setup(r);
    if r.chance(1, 2) { // make loops likelier: a backward branch at the end of the program
        let n = st.overrides.len().min(8) as u16;
        st.overrides.push((st.pc.wrapping_add(n), (br(7, -(1 + r.below(n as u64 + 1) as i16)), 0xFFFF)));
    }
    if r.chance(1, 3) { st.overrides.push((st.pc.wrapping_add(r.below(6) as u16), (pick_instr(r), 0xFFFF))); }
    let cells = vec![pick_addr(r), st.pc.wrapping_add(r.below(16) as u16), 0xFE02, 0xFFFE];
    Prog { st, len: 28, cells, shape: "random" }
}
fn gen_prog(r: &mut Rng) -> Prog {
    match r.below(10) { 0..=2 => prog_random(r), 3 | 4 => prog_nested(r), 5 | 6 => prog_trap(r), 7 | 8 => prog_count(r), _ => prog_mcr(r) }
}

fn gen_cmp(r: &mut Rng, near: u16) -> (u8, u16) {
    let tag = r.below(8) as u8;
    let v = match r.below(8) { 0 | 1 | 2 => r.below(8) as u16, 3 | 4 => near, 5 => near.wrapping_add(r.below(3) as u16).wrapping_sub(1), 6 => *r.pick(&[0u16, 0xFFFF, 0x8000, 0x7FFF]), _ => r.u16() };
    (tag, v)
}
fn gen_bps(r: &mut Rng, p: &Prog) -> Vec<Bp> {
    let n = match r.below(10) { 0..=3 => 0, 4..=7 => 1, 8 => 2, _ => 3 };
    (0..n).map(|_| match r.below(7) {
        0 | 1 | 2 => Bp::Pc(if r.chance(5, 6) { p.st.pc.wrapping_add(r.below(p.len as u64 + 2) as u16) } else { pick_addr(r) }),
        3 | 4 => { let reg = r.below(8) as u8; let (t, v) = gen_cmp(r, p.st.regs[reg as usize].0); Bp::Reg(reg, t, v) }
        _ => {
            let a = if r.chance(4, 5) { *r.pick(&p.cells) } else { pick_addr(r) };
            let near = p.st.overrides.iter().rev().find(|x| x.0 == a).map(|x| x.1.0).unwrap_or(p.st.fill);
            let (t, v) = gen_cmp(r, near); Bp::Mem(a, t, v)
        }
    }).collect()
}
fn gen_call(r: &mut Rng, p: &Prog, wd: u64, instrs_now: u64) -> Call {
    let kind = match r.below(16) {
        0 | 1 => Kind::Limit(r.below(7)),
        2 | 3 | 4 => Kind::Limit(8 + r.below(200)),
        5 => Kind::Limit(*r.pick(&[1_000_000u64, u64::MAX, u64::MAX - 1, 1 << 32])),
        6 | 7 | 8 => Kind::Over,
        9 | 10 => Kind::Out,
        11 => Kind::Run,
        12 | 13 => Kind::While(match r.below(6) {
            0 => Tw::True,
            1 => Tw::InstrNe(instrs_now.wrapping_add(r.below(40))),
            2 => Tw::PcNe(p.st.pc.wrapping_add(r.below(p.len as u64 + 1) as u16)),
            3 => { let reg = r.below(8) as u8; Tw::RegNe(reg, r.below(6) as u16) }
            4 => Tw::IdxLt(r.below(50)),
            _ => Tw::Count(instrs_now.wrapping_sub(r.below(3)), r.below(60)),
        }),
        _ => Kind::StepIn,
    };
    let once = match r.below(10) { 0 | 1 => r.below(12), 2 => r.below(200), _ => NONE };
    let tw_clear = if r.chance(1, 3) { r.below(20) } else { NONE };
    Call { bps: gen_bps(r, p), kind, once, from: wd / 2 + r.below(wd / 2 + 1), tw_clear, kbl: r.chance(1, 25), dsl: r.chance(1, 25) }
}

// ------------------------------------------------------------------ one history
fn history(ctx: &Ctx, shard: usize, r: &mut Rng, first: bool) {
    let p = gen_prog(r);
    let mut m = build(&p.st);
    let mctl = attach(&mut m);
    let mut t = build(&p.st);
    let tctl = attach(&mut t);
    let state = state_tree(&p.st, &mut m);
    let wd = ctx.n(600, 2500);
    let ncalls = 1 + r.below(6) as usize;
    let mut calls = vec![];
    let mut results = vec![];
    let mut prev_class = 0u8;
    for _ in 0..ncalls {
        let c = gen_call(r, &p, wd, m.sim.instructions_run);
        let out = real_call(&mut m, &mctl, &c);
        let polls = mctl.polls();
        let class = class_of(&m.sim);
        let e = oracle_call(&mut t, &tctl, &c, prev_class);
        calls.push(L(vec![list(c.bps.iter(), t_bp), t_kind(&c.kind), L(e.iters.clone())]));
        let replay = || format!("run.call\t{}", L(vec![state.clone(), L(calls.clone())]));
        ctx.stat(&format!("call.{}", kind_name(&c.kind)), 1);
        ctx.stat(&format!("stop.{}", e.why), 1);
        ctx.stat("iterations", e.steps as i64);
        if c.once != NONE && c.once < e.steps { ctx.stat("mcr_clear_hit", 1); }
        // ---- direct oracle: same stop, same number of steps, same state as repeated step_in
        let mut diverged = true;
        if out != e.out || class != e.class || polls != e.steps {
            ctx.fail("C13", "stop_differs_from_steps", format!("{} on '{}' program: call gave {:?} class {} after {} steps; single steps reach the documented stop ({}) as {:?} class {} after {} steps",
                     kind_name(&c.kind), p.shape, out, class, polls, e.why, e.out, e.class, e.steps), replay());
        } else if out != Outcome::Panic {
            let (a, bt) = (arch_state(&mut m), arch_state(&mut t));
            if a != bt {
                ctx.fail("C13", "state_differs_from_steps", format!("{} on '{}' program, {} steps: state after the call {} differs from state after single steps {}", kind_name(&c.kind), p.shape, polls, a, bt), replay());
            } else if let Some(x) = same_memory(&m, &t) {
                ctx.fail("C13", "state_differs_from_steps", format!("{} on '{}' program, {} steps: memory at {x:#06x} differs from single steps", kind_name(&c.kind), p.shape, polls), replay());
            } else { diverged = false; }
        } else { diverged = false; }
        let obs = m.observe(&out);
        // ---- C28 over runs: the observer after the call holds, per address, the OR of what the single steps touched
        if !diverged && out != Outcome::Panic {
            let got: Vec<(u16, u8)> = obs.as_l().and_then(|f| f.get(10)).and_then(|t| t.as_l()).map(|l| l.iter().filter_map(|x| { let l = x.as_l()?; Some((l[0].as_i()? as u16, l[1].as_i()? as u8)) }).collect()).unwrap_or_default();
            let want: Vec<(u16, u8)> = e.acc.iter().map(|(a, f)| (*a, *f)).collect();
            if got != want {
                let d = got.iter().find(|x| !want.contains(x)).map(|x| format!("{:#06x} has flags {} after the call", x.0, x.1))
                    .or_else(|| want.iter().find(|x| !got.contains(x)).map(|x| format!("{:#06x} should have flags {}", x.0, x.1))).unwrap_or_default();
                ctx.fail("C28", "run_observer_differs_from_steps", format!("{} on '{}' program, {} steps: the access observer after the call is not the union of the single steps' accesses: {d}", kind_name(&c.kind), p.shape, polls), replay());
            }
        }
        results.push(L(vec![i(class), I(polls as i128), obs]));
        prev_class = class;
        if out == Outcome::Panic { ctx.stat("panic", 1); break; }
        if diverged { break; } // the two machines are no longer comparable
    }
    let inp = L(vec![state, L(calls)]);
    let outp = L(vec![L(results), m.mem_diff()]);
    if first { let (a, o) = (inp.to_string(), outp.to_string()); ctx.sample(format!("run.call {} -> {}", &a[..a.len().min(260)], &o[..o.len().min(260)])); }
    ctx.stat(&format!("prog.{}", p.shape), 1);
    ctx.case_to(shard, "run.call", &inp, &outp);
}

// ------------------------------------------------------------------ segment splitting
fn split(ctx: &Ctx, r: &mut Rng) {
    let p = gen_prog(r);
    let mut a = build(&p.st);
    let actl = attach(&mut a);
    let mut bm = build(&p.st);
    let bctl = attach(&mut bm);
    let bps = gen_bps(r, &p);
    let k = 2 + r.below(4) as usize;
    let segs: Vec<u64> = (0..k).map(|_| match r.below(5) { 0 => 0, 1 => 1, _ => r.below(120) }).collect();
    let total: u64 = segs.iter().sum();
    install(&mut a.sim, &bps);
    install(&mut bm.sim, &bps);
    let mut last = Outcome::Ok;
    let mut used = 0;
    for s in &segs {
        actl.arm(NONE, NONE);
        let i0 = a.sim.instructions_run;
        let sim = &mut a.sim;
        last = match catch(|| sim.run_with_limit(*s)) { None => Outcome::Panic, Some(Ok(())) => Outcome::Ok, Some(Err(e)) => Outcome::Err(err_code(&e)) };
        used += 1;
        // go on only when this segment ended on its own limit
        let on_limit = last == Outcome::Ok && class_of(&a.sim) == 0 && a.sim.instructions_run.wrapping_sub(i0) == *s;
        if !on_limit { break; }
    }
    bctl.arm(NONE, NONE);
    let sim = &mut bm.sim;
    let whole = match catch(|| sim.run_with_limit(total)) { None => Outcome::Panic, Some(Ok(())) => Outcome::Ok, Some(Err(e)) => Outcome::Err(err_code(&e)) };
    ctx.stat("split.histories", 1);
    ctx.stat("split.segments", used as i64);
    if last == Outcome::Panic || whole == Outcome::Panic { ctx.stat("split.panic", 1); if last == whole { return; } }
    let replay = || format!("runctl.split\t{}", L(vec![state_tree(&p.st, &mut build_with(&p.st)), list(bps.iter(), t_bp), list(segs.iter(), |x| I(*x as i128))]));
    let (ca, cb) = (class_of(&a.sim), class_of(&bm.sim));
    if last != whole || ca != cb {
        ctx.fail("C13", "split_differs", format!("'{}' program: limits {:?} end as {:?} class {}; one run of {} ends as {:?} class {}", p.shape, &segs[..used], last, ca, total, whole, cb), replay());
        return;
    }
    let (sa, sb) = (arch_state(&mut a), arch_state(&mut bm));
    if sa != sb {
        ctx.fail("C13", "split_differs", format!("'{}' program: state after limits {:?}: {} ; after one run of {}: {}", p.shape, &segs[..used], sa, total, sb), replay());
    } else if let Some(x) = same_memory(&a, &bm) {
        ctx.fail("C13", "split_differs", format!("'{}' program: memory at {x:#06x} after limits {:?} differs from one run of {}", p.shape, &segs[..used], total), replay());
    }
}
fn build_with(st: &Setup) -> Machine { let mut m = build(st); attach(&mut m); m }

pub fn run(ctx: &Ctx, _replay: Option<&str>) {
    let runs = ctx.n(6000, 70_000) as usize;
    let root = Rng::new(ctx.seed ^ 0xC13);
    par_for(runs, |k| {
        let mut r = root.fork(k as u64 + 1);
        history(ctx, k, &mut r, k < 2);
    });
    let splits = ctx.n(4000, 40_000) as usize;
    let root2 = Rng::new(ctx.seed ^ 0xC13_5);
    par_for(splits, |k| {
        let mut r = root2.fork(k as u64 + 1);
        split(ctx, &mut r);
    });
    ctx.stat("histories", runs as i64);
}
