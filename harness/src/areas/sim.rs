//! Simulator core: random machine states x instruction streams, executed step by step on the
//! implementation; the whole observable state after every step is the correspondence case for
//! the Coq model (`sim.run`).  Direct oracles: C16 (no panic, prefetch_pc total).
use crate::ctx::{par_for, Ctx};
use crate::rng::Rng;
use crate::simwire::*;
use crate::tree::*;

pub const BOUNDARY: [u16; 14] = [0x0000, 0x0001, 0x00FF, 0x0100, 0x01FF, 0x0200, 0x2FFF, 0x3000, 0x3001, 0xFDFF, 0xFE00, 0xFE02, 0xFFFE, 0xFFFF];

pub fn pick_addr(r: &mut Rng) -> u16 {
    match r.below(10) {
        0..=2 => *r.pick(&BOUNDARY),
        3..=6 => 0x3000 + r.below(0x200) as u16,
        7 => r.below(0x3000) as u16,
        8 => 0xFE00 + r.below(0x200) as u16,
        _ => r.u16(),
    }
}
pub fn pick_word(r: &mut Rng) -> W {
    let d = match r.below(6) { 0 => 0, 1 => 0xFFFF, 2 => 0x8000, 3 => pick_addr(r), _ => r.u16() };
    let n = match r.below(8) { 0 => 0, 1 => r.u16(), 2 => 0x00FF, _ => 0xFFFF };
    (d, n)
}
/// an instruction word, biased to canonical encodings of every opcode
pub fn pick_instr(r: &mut Rng) -> u16 {
    let reg = |r: &mut Rng| r.below(8) as u16;
    let off = |r: &mut Rng, bits: u32| -> u16 {
        let m = (1u32 << bits) - 1;
        (match r.below(6) { 0 => 0, 1 => m, 2 => 1 << (bits - 1), 3 => (1 << (bits - 1)) - 1, _ => r.next() as u32 & m }) as u16
    };
    match r.below(34) {
        0 | 1 => (r.below(8) as u16) << 9 | off(r, 9),                                   // BR
        2 | 3 => 0x1000 | reg(r) << 9 | reg(r) << 6 | 0x20 | off(r, 5),                    // ADD imm
        4 => 0x1000 | reg(r) << 9 | reg(r) << 6 | reg(r),                                  // ADD reg
        5 | 6 => 0x2000 | reg(r) << 9 | off(r, 9),                                         // LD
        7 | 8 => 0x3000 | reg(r) << 9 | off(r, 9),                                         // ST
        9 => 0x4800 | off(r, 11),                                                          // JSR
        10 => 0x4000 | reg(r) << 6,                                                        // JSRR
        11 => 0x5000 | reg(r) << 9 | reg(r) << 6 | 0x20 | off(r, 5),                       // AND imm
        12 => 0x5000 | reg(r) << 9 | reg(r) << 6 | reg(r),                                 // AND reg
        13 | 14 => 0x6000 | reg(r) << 9 | reg(r) << 6 | off(r, 6),                         // LDR
        15 | 16 => 0x7000 | reg(r) << 9 | reg(r) << 6 | off(r, 6),                         // STR
        17 | 18 => 0x8000,                                                                 // RTI
        19 => 0x903F | reg(r) << 9 | reg(r) << 6,                                          // NOT
        20 | 21 => 0xA000 | reg(r) << 9 | off(r, 9),                                       // LDI
        22 | 23 => 0xB000 | reg(r) << 9 | off(r, 9),                                       // STI
        24 => 0xC000 | reg(r) << 6,                                                        // JMP
        25 => 0xC1C0,                                                                      // RET
        26 => 0xE000 | reg(r) << 9 | off(r, 9),                                            // LEA
        27 | 28 => 0xF020 + r.below(6) as u16,                                             // TRAP x20..x25
        29 => 0xF000 | r.below(256) as u16,                                                // TRAP any
        30 => 0xD000 | r.below(0x1000) as u16,                                             // reserved
        31 => [0xC800u16, 0x8001, 0x9000, 0x4001, 0x1008, 0xF100][r.below(6) as usize],    // bad formats
        _ => r.u16(),
    }
}

pub fn gen_setup(r: &mut Rng) -> Setup {
    let mut st = Setup::plain(match r.below(4) { 0 => 0, 1 => 0xFFFF, _ => r.u16() });
    st.strict = r.chance(1, 3);
    st.real = r.chance(1, 2);
    st.debug_frames = r.chance(1, 2);
    st.ignore_priv = r.chance(1, 5);
    st.pc = match r.below(8) { 0 | 1 => *r.pick(&BOUNDARY), 2 => r.below(0x3000) as u16, 3 => r.u16(), _ => 0x3000 + r.below(0x100) as u16 };
    let user = r.chance(3, 5);
    st.psr = (if user { 0x8000 } else { 0 }) | ((r.below(8) as u16) << 8) | [1u16, 2, 4, 0, 7, 3][r.below(6) as usize];
    if r.chance(1, 12) { st.psr = r.u16(); }
    for k in 0..8 { st.regs[k] = pick_word(r); }
    // stack pointers: mostly sane
    let sp_choices = [0x3000u16, 0x2FFF, 0x0002, 0x0001, 0x0000, 0xFE00, 0xFDFF, 0x4000, 0xFFFF];
    st.regs[6] = (if r.chance(3, 4) { *r.pick(&sp_choices) } else { r.u16() }, if r.chance(9, 10) { 0xFFFF } else { r.u16() });
    st.saved_sp = (if r.chance(3, 4) { *r.pick(&sp_choices) } else { r.u16() }, if r.chance(9, 10) { 0xFFFF } else { 0 });
    // program around the PC
    let n = 4 + r.below(24) as u16;
    for k in 0..n {
        let a = st.pc.wrapping_add(k);
        let init = if r.chance(1, 25) { r.u16() } else { 0xFFFF };
        st.overrides.push((a, (pick_instr(r), init)));
    }
    // data / pointers sprinkled at interesting places
    for _ in 0..r.below(24) {
        let a = pick_addr(r);
        st.overrides.push((a, pick_word(r)));
    }
    // some vector-table entries pointing at code we control
    for _ in 0..r.below(4) {
        let v = match r.below(3) { 0 => 0x20 + r.below(6) as u16, 1 => 0x100 + r.below(3) as u16, _ => 0x180 + r.below(3) as u16 };
        let target = if r.chance(1, 2) { st.pc.wrapping_add(r.below(8) as u16) } else { pick_addr(r) };
        st.overrides.push((v, (target, if r.chance(9, 10) { 0xFFFF } else { 0 })));
    }
    if r.chance(1, 4) { st.alloca = Some({ let mut v: Vec<(u16, u16)> = (0..r.below(3)).map(|_| (pick_addr(r), r.below(40) as u16)).collect(); v.sort_by_key(|x| x.0); v }); }
    // an allocated block that reaches the top of the address space (start + len = x10000 or beyond, as load_obj_file records
    // for a block ending at xFFFF), with the program loading from / storing to it through R1
    if r.chance(1, 12) {
        let start = 0xFFFF - r.below(12) as u16;
        let len = (0x10000u32 - start as u32) as u16;
        st.alloca = Some(vec![(start, if r.chance(1, 2) { len } else { len.wrapping_sub(1).max(1) })]);
        st.regs[1] = (start.wrapping_add(r.below(4) as u16), 0xFFFF);
        st.overrides.push((st.pc, ([0x6040u16, 0x7040, 0x6041, 0x7041][r.below(4) as usize], 0xFFFF)));
        st.ignore_priv = true;
    }
    if r.chance(1, 3) { st.sr_defns.push((pick_addr(r), if r.chance(1, 2) { PList::CC(r.below(4) as usize) } else { PList::PBR((0..r.below(3)).map(|_| r.below(8) as u8).collect()) })); }
    for _ in 0..r.below(2) {
        let n = st.overrides.len() as u64;
        let a = st.overrides[r.below(n) as usize].1.0; st.sr_defns.push((a, PList::CC(r.below(3) as usize)));
    }
    // a JSRR to a subroutine with a registered stack-convention signature, with R6 close to the top of the
    // address space so that the argument block R6+0 .. R6+n-1 wraps around xFFFF
    if r.chance(1, 10) {
        let callee = 0x3800 + r.below(0x100) as u16;
        st.sr_defns.push((callee, PList::CC(1 + r.below(4) as usize)));
        st.regs[2] = (callee, 0xFFFF);
        st.regs[6] = (0xFFFF - r.below(3) as u16, 0xFFFF);
        st.overrides.push((st.pc, (0x4080, 0xFFFF)));          // JSRR R2
        st.overrides.push((callee, (0x1021, 0xFFFF)));
        for a in [0xFFFDu16, 0xFFFE, 0xFFFF, 0x0000, 0x0001, 0x0002] { st.overrides.push((a, (r.u16(), 0xFFFF))); }
        st.debug_frames = true;
        st.ignore_priv = true;
    }
    st.instrs = if r.chance(1, 20) { u64::MAX - r.below(3) } else { r.below(1000) };
    st.mcr = r.chance(1, 2);
    if r.chance(1, 6) { st.ireg.push((0xFE10 + r.below(4) as u16, r.below(4) as u8)); }
    if r.chance(1, 20) { st.unmap_default.push(if r.chance(1, 2) { 0xFFFC } else { 0xFFFE }); }
    if r.chance(2, 3) { st.kb = Some(((0..r.below(4)).map(|_| r.next() as u8).collect(), r.chance(1, 3))); }
    if r.chance(2, 3) { st.ds = Some((0..r.below(2)).map(|_| r.next() as u8).collect()); }
    for _ in 0..r.below(3) {
        if r.chance(1, 2) {
            let lo = r.below(4) as u32 + if r.chance(1, 6) { 0 } else { 1 };
            st.extras.push(Extra::Timer { enabled: r.chance(4, 5), lo, hi: lo + r.below(4) as u32, seed: r.next(), vect: if r.chance(1, 4) { r.below(4) as u8 } else { 0x80 + r.below(4) as u8 }, prio: r.below(10) as u8 });
        } else {
            let l = (0..r.below(12)).map(|_| match r.below(8) { 0 | 1 => Some(Irq::Vec(if r.chance(1, 4) { r.below(4) as u8 } else { 0x80 + r.below(3) as u8 }, r.below(9) as u8)), 2 if r.chance(1, 4) => Some(Irq::Ext), _ => None }).collect();
            st.extras.push(Extra::Script(l));
        }
    }
    st
}

/// run one generated case; returns the `sim.run` case (input, output) and reports C16 failures
pub fn run_case(ctx: &Ctx, st: &Setup, r: &mut Rng, nsteps: usize) -> (Tree, Tree) {
    let mut m = build(st);
    let state = t_setup(st, &mut m);
    let mut envs = vec![];
    let mut obs = vec![];
    let mut consecutive_err = 0;
    for _ in 0..nsteps {
        let kbl = r.chance(1, 8);
        let dsl = r.chance(1, 8);
        let pc_before = m.sim.pc;
        let (out, env, o) = m.step(kbl, dsl);
        // C16: prefetch_pc() must not panic either (observe() records -1 when it does)
        if out == Outcome::Panic {
            ctx.fail("C16", "step_panics", format!("step_in panics at pc={pc_before:#06x} ({}), setup seedable state", crate::LAST_PANIC.with(|p| p.borrow().clone())),
                     format!("sim.run\t{}", L(vec![state.clone(), L(envs.iter().cloned().chain([env.clone()]).collect())])));
        } else if let Some(l) = o.as_l() { if l.get(6) == Some(&I(-1)) {
            ctx.fail("C16", "prefetch_pc_panics", format!("prefetch_pc() panics after a step at pc={pc_before:#06x} (pc now {:#06x})", m.sim.pc),
                     format!("sim.run\t{}", L(vec![state.clone(), L(envs.iter().cloned().chain([env.clone()]).collect())])));
        } }
        envs.push(env);
        obs.push(o);
        match out {
            Outcome::Panic => break,
            Outcome::Err(_) => { consecutive_err += 1; if consecutive_err >= 2 { break; } }
            Outcome::Ok => consecutive_err = 0,
        }
    }
    (L(vec![state, L(envs)]), L(vec![L(obs), m.mem_diff(), m.mem_data_diff()]))
}

/// architectural projection of a `sim.run` output: per step (outcome pc psr ssp regs mcr devs), and
/// the final memory diff on data only.  None when the run panicked.
pub fn project(out: &Tree) -> Option<Tree> {
    let l = out.as_l()?;
    let steps = l[0].as_l()?;
    let mut v = vec![];
    for s in steps {
        let f = s.as_l()?;
        if f.len() < 13 { return None; }
        let data = |w: &Tree| w.as_l().map(|x| x[0].clone());
        let regs: Option<Vec<Tree>> = f[4].as_l()?.iter().map(data).collect();
        v.push(L(vec![f[0].clone(), f[1].clone(), f[2].clone(), data(&f[3])?, L(regs?), f[9].clone(), f[11].clone()]));
    }
    Some(L(vec![L(v), l[2].clone()]))
}

pub fn run(ctx: &Ctx, _replay: Option<&str>) {
    let runs = ctx.n(2500, 120_000) as usize;
    let root = Rng::new(ctx.seed);
    let steps_total = std::sync::atomic::AtomicU64::new(0);
    par_for(runs, |k| {
        let mut r = root.fork(k as u64 + 1);
        let st = gen_setup(&mut r);
        let nsteps = 1 + r.below(60) as usize;
        let (inp, out3) = run_case(ctx, &st, &mut r, nsteps);
        let out = L(out3.as_l().unwrap()[..2].to_vec());
        let n = out.as_l().and_then(|l| l[0].as_l()).map(|l| l.len()).unwrap_or(0);
        steps_total.fetch_add(n as u64, std::sync::atomic::Ordering::Relaxed);
        ctx.case_to(k, "sim.run", &inp, &out);
        // C08: the implementation against the REFERENCE semantics (spec/IsaSpec.v), architectural
        // projection, non-strict runs only (strict mode is related to non-strict by C14)
        if !st.strict {
            if let Some(p) = project(&out3) { ctx.case_to(k, "isa.run", &inp, &p); }
        }
        if k < 2 { ctx.sample(format!("sim.run {} -> {}", &inp.to_string()[..300.min(inp.to_string().len())], &out.to_string()[..300.min(out.to_string().len())])); }
    });
    ctx.stat("runs", runs as i64);
    ctx.stat("steps", steps_total.load(std::sync::atomic::Ordering::Relaxed) as i64);
}
