//! Direct property oracles on the implementation's simulator (the failing-input search for
//! C09, C14, C27, C28), independent of the Coq model: paired strict/non-strict runs, user-mode
//! confinement, frame-depth accounting, reference access sets.
use crate::areas::sim::{gen_setup, pick_addr};
use crate::ctx::{par_for, Ctx};
use crate::rng::Rng;
use crate::simwire::*;
use crate::tree::*;
use lc3_ensemble::ast::sim::SimInstr;
use lc3_ensemble::ast::ImmOrReg;
use lc3_ensemble::sim::frame::FrameType;
use std::collections::BTreeMap;

fn replay_of(st: &Setup, m: &mut Machine, envs: &[Tree]) -> String {
    format!("sim.run\t{}", L(vec![t_setup(st, m), L(envs.to_vec())]))
}

/// C14: the same state run with strict on and off, in lock step.
fn c14_case(ctx: &Ctx, st0: &Setup, r: &mut Rng, nsteps: usize, all_init: bool) {
    let mut st = st0.clone();
    st.strict = true;
    let mut lax = st.clone();
    lax.strict = false;
    let mut ms = build(&st);
    let mut ml = build(&lax);
    if all_init {
        for m in [&mut ms, &mut ml] {
            for a in 0..=u16::MAX { let d = m.sim.mem[a].get(); m.sim.mem[a] = word((d, 0xFFFF)); }
            for k in 0..8u8 { let d = m.sim.reg_file[reg(k)].get(); m.sim.reg_file[reg(k)] = word((d, 0xFFFF)); }
            let d = m.sim.verif_saved_sp().get(); m.sim.verif_set_saved_sp(word((d, 0xFFFF)));
        }
    }
    let mut envs = vec![];
    for k in 0..nsteps {
        let (kbl, dsl) = (r.chance(1, 10), r.chance(1, 10));
        let (os, env, obs_s) = ms.step(kbl, dsl);
        envs.push(env);
        match os {
            Outcome::Panic => {
                let (ol, _, _) = ml.step(kbl, dsl);
                if ol != Outcome::Panic {
                    ctx.fail("C14", "strict_step_panics", format!("step {k}: the step panics under strict mode ({}) but gives {ol:?} without it", crate::LAST_PANIC.with(|p| p.borrow().clone())), replay_of(&st, &mut build(&st), &envs));
                }
                return;
            }
            Outcome::Err(c) if c >= 6 => {
                if all_init {
                    ctx.fail("C14", "strict_error_on_initialized_machine", format!("fully initialised machine: strict step {k} reports strict error code {c}"), replay_of(&st, &mut build(&st), &envs));
                }
                return; // a step that fails only under strict mode fails with a strict error: fine
            }
            _ => {}
        }
        let (ol, _, obs_l) = ml.step(kbl, dsl);
        if os != ol || obs_s != obs_l {
            let what = if os != ol { format!("outcomes differ: strict {os:?} vs non-strict {ol:?}") } else { "states differ after a step that strict mode did not reject".to_string() };
            let class = match (&os, &ol) { (Outcome::Err(_), Outcome::Ok) | (Outcome::Err(_), Outcome::Err(_)) if os != ol => "strict_adds_nonstrict_error", _ => "strict_changes_state" };
            ctx.fail("C14", class, format!("step {k}: {what}; strict obs {} / non-strict obs {}", trunc(&obs_s), trunc(&obs_l)), replay_of(&st, &mut build(&st), &envs));
            return;
        }
        if matches!(os, Outcome::Err(_)) { return; }
    }
    if ms.mem_diff() != ml.mem_diff() {
        ctx.fail("C14", "strict_changes_state", "final memory differs between strict and non-strict runs".into(), replay_of(&st, &mut build(&st), &envs));
    }
}
fn trunc(t: &Tree) -> String { let s = t.to_string(); if s.len() > 260 { s[..260].to_string() } else { s } }

/// expected read / written address sets of one executed instruction (no interrupt, non-strict)
fn reference_accesses(m: &Machine, pc: u16) -> Option<(Vec<u16>, Vec<(u16, u16)>, bool)> {
    // returns (reads in order, writes (addr, data), is_entry) — None when not predictable here
    let sim = &m.sim;
    let w = sim.mem[pc].get();
    let instr = SimInstr::decode(w).ok()?;
    let pc1 = pc.wrapping_add(1);
    let rg = |r: lc3_ensemble::ast::Reg| sim.reg_file[r].get();
    let mut reads = vec![pc];
    let mut writes = vec![];
    match instr {
        SimInstr::LD(_, off) => reads.push(pc1.wrapping_add_signed(off.get())),
        SimInstr::LDR(_, br, off) => reads.push(rg(br).wrapping_add_signed(off.get())),
        SimInstr::LDI(_, off) => {
            let p = pc1.wrapping_add_signed(off.get());
            if p >= 0xFE00 { return None; }
            reads.push(p); reads.push(sim.mem[p].get());
        }
        SimInstr::ST(sr, off) => writes.push((pc1.wrapping_add_signed(off.get()), rg(sr))),
        SimInstr::STR(sr, br, off) => writes.push((rg(br).wrapping_add_signed(off.get()), rg(sr))),
        SimInstr::STI(sr, off) => {
            let p = pc1.wrapping_add_signed(off.get());
            if p >= 0xFE00 { return None; }
            reads.push(p); writes.push((sim.mem[p].get(), rg(sr)));
        }
        SimInstr::TRAP(_) | SimInstr::RTI => return None, // checked by C08/C10 through the model and the reference semantics
        _ => {}
    }
    Some((reads, writes, false))
}

fn in_user(a: u16) -> bool { (0x3000..0xFE00).contains(&a) }

/// C09 / C27 / C28 on one run
fn props_case(ctx: &Ctx, st: &Setup, r: &mut Rng, nsteps: usize) {
    let mut m = build(st);
    let mut envs: Vec<Tree> = vec![];
    for k in 0..nsteps {
        let (kbl, dsl) = (r.chance(1, 10), r.chance(1, 10));
        // ---- pre-state ----
        let pc = m.sim.pc;
        let user = !m.sim.psr().privileged();
        let checks = !st.ignore_priv;
        let depth0 = m.sim.frame_stack.len();
        let r6_before = m.sim.reg_file[reg(6)].get();
        let ssp_before = m.sim.verif_saved_sp().verif_parts();
        let instrs0 = m.sim.instructions_run;
        let fetched = if pc < 0xFE00 { SimInstr::decode(m.sim.mem[pc].get()).ok() } else { None };
        let reference = if !st.strict { reference_accesses(&m, pc) } else { None };
        let pre_words: BTreeMap<u16, (u16, u16)> = reference.as_ref().map(|(_, ws, _)| ws.iter().map(|(a, _)| (*a, m.sim.mem[*a].verif_parts())).collect()).unwrap_or_default();
        let kb0: Option<Vec<u8>> = m.kb.as_ref().map(|b| b.read().unwrap_or_else(|e| e.into_inner()).iter().copied().collect());
        let ds0: Option<Vec<u8>> = m.ds.as_ref().map(|b| b.read().unwrap_or_else(|e| e.into_inner()).clone());
        let mem_before = if user && checks { Some((0..=u16::MAX).map(|a| m.sim.mem[a]).collect::<Vec<_>>()) } else { None };
        // ---- step ----
        let (out, env, obs) = m.step(kbl, dsl);
        envs.push(env);
        if out == Outcome::Panic { return; }
        let f = obs.as_l().unwrap();
        let accessed: Vec<(u16, u8)> = f[10].as_l().unwrap().iter().map(|x| { let l = x.as_l().unwrap(); (l[0].as_i().unwrap() as u16, l[1].as_i().unwrap() as u8) }).collect();
        let now_priv = m.sim.psr().privileged();
        let executed = m.sim.instructions_run != instrs0;

        // ---- C09 ----
        if user && checks {
            // an entry into a trap / exception / interrupt routine switches stacks; it normally ends in supervisor
            // mode (unless a push lands on a memory-mapped PSR, which is still an entry, not a user access)
            let entered = now_priv || m.sim.verif_saved_sp().verif_parts() != ssp_before;
            if !entered {
                for (a, _) in &accessed {
                    if !in_user(*a) {
                        ctx.fail("C09", "user_access_outside_user_space", format!("step {k}: user-mode step at pc={pc:#06x} accessed {a:#06x}"), replay_of(st, &mut build(st), &envs));
                    }
                }
            }
            if let (Some(before), false) = (&mem_before, entered) {
                for a in (0u16..0x3000).chain(0xFE00..=0xFFFF) {
                    if m.sim.mem[a] != before[a as usize] {
                        ctx.fail("C09", "user_changed_supervisor_memory", format!("step {k}: user-mode step at pc={pc:#06x} changed mem[{a:#06x}] without entering supervisor mode"), replay_of(st, &mut build(st), &envs));
                        break;
                    }
                }
            }
            if matches!(out, Outcome::Err(2) | Outcome::Err(3)) && !entered {
                // a denied access leaves memory and device state unchanged
                let kb1: Option<Vec<u8>> = m.kb.as_ref().map(|b| b.read().unwrap_or_else(|e| e.into_inner()).iter().copied().collect());
                let ds1: Option<Vec<u8>> = m.ds.as_ref().map(|b| b.read().unwrap_or_else(|e| e.into_inner()).clone());
                let mem_same = mem_before.as_ref().map(|b| (0..=u16::MAX).all(|a| m.sim.mem[a] == b[a as usize])).unwrap_or(true);
                if kb0 != kb1 || ds0 != ds1 || !mem_same {
                    ctx.fail("C09", "denied_access_has_effects", format!("step {k}: violation reported at pc={pc:#06x} but memory or device state changed"), replay_of(st, &mut build(st), &envs));
                }
            }
            if let Some(SimInstr::RTI) = fetched {
                if executed {
                    ctx.fail("C09", "rti_in_user_mode", format!("step {k}: RTI at pc={pc:#06x} executed in user mode"), replay_of(st, &mut build(st), &envs));
                }
                // no interrupt pending here means the RTI was fetched: it must be refused before anything else happens
                let fetched_it = accessed.iter().any(|(a, f)| *a == pc && f & 1 != 0);
                if fetched_it && in_user(pc) && !st.real {
                    let only_fetch = accessed.iter().all(|(a, _)| *a == pc);
                    // (in strict mode a not fully initialised instruction word stops the step at the fetch
                    // with StrictPCCurrUninit: nothing was decoded, so no RTI was attempted)
                    let refused = out == Outcome::Err(2) || (st.strict && out == Outcome::Err(12));
                    if !refused || !only_fetch {
                        ctx.fail("C09", "rti_in_user_mode", format!("step {k}: RTI at pc={pc:#06x} in user mode gave {out:?} and touched {accessed:?} (expected PrivilegeViolation and only the fetch)"), replay_of(st, &mut build(st), &envs));
                    }
                }
            }
        }

        // ---- C27 ----
        let depth1 = m.sim.frame_stack.len();
        // a return that is refused (strict mode: uninitialised target; RTI: privilege, uninitialised stack words) is
        // not a return executed: the depth and the frame of the still-active call stay
        if let Outcome::Err(_) = out {
            let is_return = matches!(fetched, Some(SimInstr::RTI)) || matches!(fetched, Some(SimInstr::JMP(br)) if br.reg_no() == 7);
            let fetch_seen = accessed.iter().any(|(a, f)| *a == pc && f & 1 != 0);
            // (virtual traps only: under real traps the error of a refused return is vectored to the OS, an entry
            // that pushes a frame and may itself stop with a strict error)
            if !st.real && is_return && fetch_seen && !executed && depth1 != depth0 {
                ctx.fail("C27", "refused_return_pops", format!("step {k} at pc={pc:#06x} ({fetched:?}) ends with {out:?} (the return was not executed) but the depth went {depth0} -> {depth1}"), replay_of(st, &mut build(st), &envs));
            }
        }
        if out == Outcome::Ok {
            let expect = if executed {
                match fetched {
                    Some(SimInstr::JSR(_)) | Some(SimInstr::TRAP(_)) => depth0 + 1,
                    Some(SimInstr::RTI) => depth0.saturating_sub(1),
                    Some(SimInstr::JMP(br)) if br.reg_no() == 7 => depth0.saturating_sub(1),
                    Some(_) => depth0,
                    None => depth1,
                }
            } else {
                // not counted: interrupt entry / real-trap exception entry (+1) or a virtual HALT (0)
                // (the fetch of the HALT is observed: an interrupt taken at this boundary, whose handler happens to
                // start at this very address, reads nothing at the PC)
                let fetch_seen = accessed.iter().any(|(a, f)| *a == pc && f & 1 != 0);
                let virtual_halt = !st.real && matches!(fetched, Some(SimInstr::TRAP(v)) if v.get() == 0x25) && m.sim.pc == pc && fetch_seen;
                // at a PC in the I/O page the fetched word is whatever the device answers (not known here): the
                // step may have been a virtual HALT (PC back on it, nothing pushed); judged by the model instead
                let maybe_halt_from_device = !st.real && fetched.is_none() && pc >= 0xFE00 && m.sim.pc == pc;
                if virtual_halt || (maybe_halt_from_device && depth1 == depth0) { depth0 } else { depth0 + 1 }
            };
            if depth1 != expect {
                ctx.fail("C27", "depth_mismatch", format!("step {k} at pc={pc:#06x} ({fetched:?}, executed={executed}): depth {depth0} -> {depth1}, expected {expect}"), replay_of(st, &mut build(st), &envs));
            }
            if let Some(frames) = m.sim.frame_stack.frames() {
                if st.debug_frames && frames.len() as u64 != depth1 {
                    ctx.fail("C27", "frames_len", format!("step {k}: {} frames recorded, depth {depth1}", frames.len()), replay_of(st, &mut build(st), &envs));
                }
                if depth1 == depth0 + 1 {
                    if let Some(top) = frames.last() {
                        let want_type = if !executed { FrameType::Interrupt } else if matches!(fetched, Some(SimInstr::TRAP(_))) { FrameType::Trap } else { FrameType::Subroutine };
                        // exception entries under real traps are recorded as traps
                        let type_ok = top.frame_type == want_type || (!executed && top.frame_type == FrameType::Trap && st.real);
                        let callee_ok = match fetched {
                            Some(SimInstr::TRAP(v)) if executed => top.callee_addr == v.get(),
                            Some(SimInstr::JSR(_)) if executed => top.callee_addr == m.sim.pc,
                            _ => true,
                        };
                        // arguments of a registered stack-convention signature: the n words at R6, R6+1, ... (wrapping)
                        if executed && matches!(fetched, Some(SimInstr::JSR(_))) {
                            if let Some((_, PList::CC(n))) = st.sr_defns.iter().rev().find(|(a, _)| *a == top.callee_addr) {
                                let want: Vec<(u16, u16)> = (0..*n as u16).map(|j| m.sim.mem[r6_before.wrapping_add(j)].verif_parts()).collect();
                                let got: Vec<(u16, u16)> = top.arguments.iter().map(|w| w.verif_parts()).collect();
                                if got != want {
                                    ctx.fail("C27", "frame_arguments", format!("step {k} at pc={pc:#06x}: frame arguments {got:?}, expected the {n} words at R6={r6_before:#06x}..: {want:?}"), replay_of(st, &mut build(st), &envs));
                                }
                            }
                        }
                        if (fetched.is_some() || !executed) && (top.caller_addr != pc || !type_ok || !callee_ok) {
                            ctx.fail("C27", "top_frame", format!("step {k} at pc={pc:#06x}: top frame caller={:#06x} callee={:#06x} type={:?}", top.caller_addr, top.callee_addr, top.frame_type), replay_of(st, &mut build(st), &envs));
                        }
                    }
                }
            }
        }

        // ---- C28 ----
        if let (Some((reads, writes, _)), true, Outcome::Ok) = (&reference, executed, &out) {
            let mut want: BTreeMap<u16, u8> = BTreeMap::new();
            for a in reads { *want.entry(*a).or_default() |= 1; }
            for (a, d) in writes {
                let io = *a >= 0xFE00;
                if io { continue; } // device acceptance decides; covered by the model correspondence
                *want.entry(*a).or_default() |= 2;
                let srcw = pre_words[a];
                let _ = d;
                // modified iff the stored word differs from the old word (data and initialisation)
                let new = m.sim.mem[*a].verif_parts();
                if srcw != new { *want.entry(*a).or_default() |= 4; }
            }
            let has_io = reads.iter().chain(writes.iter().map(|(a, _)| a)).any(|a| *a >= 0xFE00);
            let got: BTreeMap<u16, u8> = accessed.iter().copied().collect();
            if !has_io && got != want {
                ctx.fail("C28", "access_set_mismatch", format!("step {k} at pc={pc:#06x} ({fetched:?}): observer {got:?}, reference {want:?}"), replay_of(st, &mut build(st), &envs));
            }
        }
        // a denied access never happened: it must not be recorded
        if user && checks && !now_priv && m.sim.verif_saved_sp().verif_parts() == ssp_before {
            for (a, _) in &accessed {
                if !in_user(*a) {
                    ctx.fail("C28", "denied_access_recorded", format!("step {k}: user-mode step at pc={pc:#06x} ({out:?}) recorded an access to {a:#06x}, which was denied"), replay_of(st, &mut build(st), &envs));
                }
            }
        }
        for (a, fl) in &accessed {
            if fl & 4 != 0 && fl & 2 == 0 {
                ctx.fail("C28", "modified_without_written", format!("step {k}: {a:#06x} marked modified but not written"), replay_of(st, &mut build(st), &envs));
            }
        }
        if matches!(out, Outcome::Err(_)) { return; }
    }
    // untracked host accesses (reads and value-changing writes) are not recorded
    let a = pick_addr(r);
    let _ = m.sim.observer.take_mem_accesses().count();
    let ctx0 = lc3_ensemble::sim::MemAccessCtx::omnipotent();
    let _ = m.sim.read_mem(a, ctx0);
    let b2 = 0x3000 + r.below(0x1000) as u16;
    let old = m.sim.mem[b2].get();
    let _ = m.sim.write_mem(b2, lc3_ensemble::sim::mem::Word::new_init(old.wrapping_add(1)), ctx0);
    let _ = m.sim.write_mem(b2, lc3_ensemble::sim::mem::Word::new_init(old.wrapping_add(1)), ctx0);
    let after: Vec<_> = m.sim.observer.take_mem_accesses().collect();
    if !after.is_empty() {
        ctx.fail("C28", "untracked_access_recorded", format!("untracked host accesses (read {a:#06x}, write {b2:#06x}) were recorded by the observer: {after:?}"), replay_of(st, &mut build(st), &envs));
    }
}

/// C09 directed: every addressing mode of a user-mode program aimed at every boundary address
/// directed cases for C27: calls whose return is refused or misdirected (strict mode with an uninitialised
/// return address or target word; RTI without privilege or with uninitialised stack words), at depth >= 1
fn c27_directed(ctx: &Ctx, r: &mut Rng) {
    for strict in [true, false] {
        for frames in [true, false] {
            for variant in 0..6u8 {
                for real in [false, true] {
                    let mut st = Setup::plain(r.u16());
                    st.strict = strict; st.debug_frames = frames; st.real = real;
                    st.psr = if variant >= 4 { 0x0002 } else { 0x8002 }; st.pc = 0x3000;
                    for k in 0..8 { st.regs[k] = (r.u16(), 0xFFFF); }
                    st.regs[6] = (0x4000, 0xFFFF);
                    let put = |st: &mut Setup, a: u16, w: u16| st.overrides.push((a, (w, 0xFFFF)));
                    put(&mut st, 0x3000, 0x4802);   // JSR x3003
                    put(&mut st, 0x3001, 0x1021);   // ADD R0,R0,#1
                    put(&mut st, 0x3002, 0xF025);   // HALT
                    match variant {
                        0 => { put(&mut st, 0x3003, 0x2E02); put(&mut st, 0x3004, 0xC1C0); st.overrides.push((0x3006, (0x3001, 0))); }      // LD R7,cell(uninit); RET
                        1 => { put(&mut st, 0x3003, 0x2E02); put(&mut st, 0x3004, 0xC1C0); put(&mut st, 0x3006, 0x5000); st.overrides.push((0x5000, (0x1021, 0))); } // RET to an uninitialised word
                        2 => { put(&mut st, 0x3003, 0x4801); put(&mut st, 0x3004, 0xC1C0); put(&mut st, 0x3005, 0x8000); }                 // nested JSR; RTI in user mode
                        3 => { put(&mut st, 0x3003, 0xC1C0); }                                                                           // plain RET (control)
                        4 => { put(&mut st, 0x3003, 0x8000); st.regs[6] = (0x4000, 0); }                                                   // supervisor RTI, uninitialised R6
                        _ => { put(&mut st, 0x3003, 0x8000); st.overrides.push((0x4000, (0x3001, 0))); st.overrides.push((0x4001, (0x8002, 0xFFFF))); } // RTI popping an uninitialised PC word
                    }
                    props_case(ctx, &st, r, 6);
                }
            }
        }
    }
}

fn c09_directed(ctx: &Ctx, r: &mut Rng) {
    let targets: [u16; 10] = [0x0000, 0x2FFF, 0x3000, 0x3001, 0xFDFF, 0xFE00, 0xFE02, 0xFE06, 0xFFFE, 0xFFFF];
    for &t in &targets {
        for mode in 0..10u8 {
            for real in [false, true] {
                for strict in [false, true] {
                    let mut st = Setup::plain(r.u16());
                    st.real = real; st.strict = strict;
                    st.psr = 0x8002; st.pc = 0x3100;
                    for k in 0..8 { st.regs[k] = (r.u16(), 0xFFFF); }
                    st.regs[1] = (t, 0xFFFF);
                    st.regs[6] = (0x4000, 0xFFFF);
                    st.kb = Some((vec![b'k', b'q'], false));
                    st.ds = Some(vec![]);
                    // pointer word for the indirect modes
                    st.overrides.push((0x3180, (t, 0xFFFF)));
                    let w: u16 = match mode {
                        0 => 0x6040,                  // LDR R0,R1,#0
                        1 => 0x7040,                  // STR R0,R1,#0
                        2 => 0xA07F,                  // LDI R0,[x3180]
                        3 => 0xB07F,                  // STI R0,[x3180]
                        4 => 0xC040,                  // JMP R1
                        5 => 0x4040,                  // JSRR R1
                        6 => 0x8000,                  // RTI
                        7 => 0x207F,                  // LD  R0,x3180 (plain, allowed)
                        8 => 0x307F,                  // ST  R0,x3180 (plain, allowed)
                        _ => 0xF0FF,                  // TRAP xFF (entry)
                    };
                    st.overrides.push((0x3100, (w, 0xFFFF)));
                    st.overrides.push((0x3101, (0x1021, 0xFFFF)));
                    // the jump target holds an instruction (only effective where we may write it)
                    if (0x3000..0xFE00).contains(&t) { st.overrides.push((t, (0x1021, 0xFFFF))); }
                    // LD/ST PC-relative at the upper boundary: place code right below xFE00
                    props_case(ctx, &st, r, 3);
                    if mode == 0 {
                        // fall-through fetch across the upper boundary
                        let mut st2 = st.clone();
                        st2.pc = 0xFDFF; st2.overrides.push((0xFDFF, (0x1021, 0xFFFF)));
                        props_case(ctx, &st2, r, 3);
                        let mut st3 = st.clone();
                        st3.pc = 0xFDFE; st3.overrides.push((0xFDFE, (0x3001, 0xFFFF))); // ST R0,#1 -> xFE00
                        st3.overrides.push((0xFDFF, (0x2000, 0xFFFF)));                    // LD R0,#0 -> xFE00
                        props_case(ctx, &st3, r, 3);
                    }
                }
            }
        }
    }
}

pub fn run(ctx: &Ctx, _replay: Option<&str>) {
    { let mut r = Rng::new(ctx.seed ^ 0xC09); c09_directed(ctx, &mut r); }
    { let mut r = Rng::new(ctx.seed ^ 0xC27); c27_directed(ctx, &mut r); }
    let runs = ctx.n(1500, 60_000) as usize;
    let root = Rng::new(ctx.seed ^ 0x51AB);
    par_for(runs, |k| {
        let mut r = root.fork(k as u64 + 1);
        let mut st = gen_setup(&mut r);
        // more user-mode, checks-on states for C09
        if r.chance(1, 2) { st.psr |= 0x8000; st.ignore_priv = false; }
        let nsteps = 1 + r.below(40) as usize;
        match k % 3 {
            0 => c14_case(ctx, &st, &mut r, nsteps, false),
            1 => { c14_case(ctx, &st, &mut r, nsteps, true); props_case(ctx, &st, &mut r, nsteps) }
            _ => props_case(ctx, &st, &mut r, nsteps),
        }
    });
    ctx.stat("runs", runs as i64);
    // every run also contributes a trivial liveness case so that the driver has something to evaluate
    ctx.case("word.not", &L(vec![i(0), i(65535)]), &L(vec![i(65535), i(65535)]));
    let _ = ImmOrReg::<5>::Reg(reg(0));
}
