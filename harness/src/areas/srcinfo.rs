//! C25 — `SourceInfo` (src/asm.rs): count_lines, line_span, read_line, get_pos_pair.
//!
//! Correspondence: every string of length <= 6 (quick: see `MAXLEN`) over the alphabet
//! {a, space, \n, \r, \t, é (2 bytes), U+3000 (3-byte whitespace)}, every line number up to
//! count_lines+1 and every byte index up to len+10 (one `srcinfo.scan` case per string), plus random
//! long strings over a wider alphabet (every White_Space code point, look-alikes that are NOT
//! whitespace, 4-byte code points) queried op by op, with huge indices/line numbers mixed in.
//!
//! Failing-input search (`oracle`): the property text stated directly on the bytes of the string,
//! without using any SourceInfo method or `str::trim*`/`str::lines`.
use crate::ctx::{catch, par_for, Ctx};
use crate::rng::Rng;
use crate::tree::*;
use lc3_ensemble::asm::SourceInfo;

const ALPHA: [char; 7] = ['a', ' ', '\n', '\r', '\t', 'é', '\u{3000}'];

/// wider alphabet for the random strings: all White_Space code points, things that look like
/// whitespace but are not (U+001C..1F, U+180E, U+200B, U+FEFF), 1–4 byte letters
const WIDE: [char; 44] = [
    'a', 'Z', '0', ';', ',', 'x', ' ', ' ', ' ', '\n', '\n', '\n', '\n', '\r', '\t', '\u{b}', '\u{c}', '\u{85}', '\u{a0}', '\u{1680}',
    '\u{2000}', '\u{2001}', '\u{2005}', '\u{200a}', '\u{2028}', '\u{2029}', '\u{202f}', '\u{205f}', '\u{3000}',
    '\u{1c}', '\u{1f}', '\u{180e}', '\u{200b}', '\u{feff}', '\u{8}', '\u{e}', '\u{2060}',
    'é', 'ß', '\u{7ff}', '\u{800}', '€', '\u{ffff}', '\u{1F600}',
];

fn t_span(o: Option<std::ops::Range<usize>>) -> Tree { opt(o, |r| L(vec![iu(r.start), iu(r.end)])) }
fn t_span_r(o: Option<Option<std::ops::Range<usize>>>) -> Tree { match o { Some(x) => t_span(x), None => panic() } }
fn t_text_r(o: Option<Option<String>>) -> Tree { match o { Some(x) => opt(x, |x| chars(&x)), None => panic() } }
fn t_pos(o: Option<(usize, usize)>) -> Tree { match o { Some((l, c)) => L(vec![iu(l), iu(c)]), None => panic() } }

/// White_Space, written out (not `char::is_whitespace`, which is what `trim` uses)
fn ws(c: char) -> bool {
    matches!(c as u32, 9..=13 | 32 | 0x85 | 0xA0 | 0x1680 | 0x2000..=0x200A | 0x2028 | 0x2029 | 0x202F | 0x205F | 0x3000)
}

/// The property, checked directly on the implementation for one string.
/// `lines`: line numbers to query, `idxs`: byte indices to query.
fn oracle(ctx: &Ctx, s: &str, si: &SourceInfo, lines: &[usize], idxs: &[usize]) {
    let b = s.as_bytes();
    let rp = |op: &str, x: usize| format!("srcinfo.{op}\t({} {x})", chars(s));
    // start offset of every line: 0 and one past every newline byte
    let mut starts = vec![0usize];
    for (k, &c) in b.iter().enumerate() { if c == b'\n' { starts.push(k + 1); } }
    let nlines = starts.len();
    let cl = catch(|| si.count_lines());
    if cl != Some(nlines) {
        ctx.fail("C25", "count_lines", format!("count_lines({s:?}) = {cl:?}, expected {nlines} (newlines + 1)"), format!("srcinfo.count_lines\t{}", chars(s)));
    }
    for &l in lines {
        let sp = catch(|| si.line_span(l));
        let tx = catch(|| si.read_line(l).map(|x| x.to_string()));
        if l >= nlines {
            if sp != Some(None) || tx != Some(None) {
                ctx.fail("C25", "line_out_of_range", format!("line {l} of {s:?} ({nlines} lines): line_span = {sp:?}, read_line = {tx:?}, expected None"), rp("line_span", l));
            }
            continue;
        }
        // the raw line: from its start to its newline (exclusive) or the end of the text
        let st = starts[l];
        let en = if l + 1 < nlines { starts[l + 1] - 1 } else { b.len() };
        let (Some(Some(r)), Some(Some(text))) = (sp.clone(), tx.clone()) else {
            ctx.fail("C25", "line_missing", format!("line {l} of {s:?}: line_span = {sp:?}, read_line = {tx:?}"), rp("line_span", l));
            continue;
        };
        let inside = st <= r.start && r.start <= r.end && r.end <= en && s.is_char_boundary(r.start) && s.is_char_boundary(r.end);
        let good = inside
            && s[st..r.start].chars().all(ws)
            && s[r.end..en].chars().all(ws)
            && !s[r.start..r.end].chars().next().is_some_and(ws)
            && !s[r.start..r.end].chars().next_back().is_some_and(ws);
        if !good {
            ctx.fail("C25", "line_span_not_trimmed_line", format!("line_span({l}) of {s:?} = {r:?}; the raw line is {st}..{en} = {:?}", &s[st..en]), rp("line_span", l));
        } else if text != s[r.start..r.end] {
            ctx.fail("C25", "read_line_not_span_text", format!("read_line({l}) of {s:?} = {text:?}, the span {r:?} holds {:?}", &s[r.start..r.end]), rp("read_line", l));
        }
    }
    for &x in idxs {
        let got = catch(|| si.get_pos_pair(x));
        // the line that contains byte index x: as many newline bytes before x; past the end: the last line
        let l = if x <= b.len() { b[..x].iter().filter(|&&c| c == b'\n').count() } else { nlines - 1 };
        let want = (l, x - starts[l]);
        if got != Some(want) {
            let class = if got.is_none() { "pos_panics" } else if x > b.len() { "pos_past_end" } else { "pos_in_range" };
            ctx.fail("C25", class, format!("get_pos_pair({x}) of {s:?} (len {}, {nlines} lines) = {got:?}, expected {want:?} (line {l} starts at byte {})", b.len(), starts[l]),
                rp("get_pos_pair", x));
        }
    }
}

/// One string: a single batched correspondence case + the oracle.
fn scan(ctx: &Ctx, shard: usize, s: &str) -> (i64, i64) {
    let si = SourceInfo::new(s);
    let nl = si.count_lines() + 2;
    let ni = s.len() + 11;
    let spans = list(0..nl, |l| t_span_r(catch(|| si.line_span(l))));
    let texts = list(0..nl, |l| t_text_r(catch(|| si.read_line(l).map(|x| x.to_string()))));
    let poss = list(0..ni, |x| t_pos(catch(|| si.get_pos_pair(x))));
    ctx.case_to(shard, "srcinfo.scan", &L(vec![chars(s), iu(nl), iu(ni)]), &L(vec![iu(si.count_lines()), spans, texts, poss]));
    let lines: Vec<usize> = (0..nl).collect();
    let idxs: Vec<usize> = (0..ni).collect();
    oracle(ctx, s, &si, &lines, &idxs);
    (nl as i64, ni as i64)
}

/// One string queried op by op at chosen lines / indices (used for long strings and replay).
fn single(ctx: &Ctx, s: &str, lines: &[usize], idxs: &[usize]) {
    let si = SourceInfo::new(s);
    ctx.case("srcinfo.count_lines", &chars(s), &iu(si.count_lines()));
    for &l in lines {
        ctx.case("srcinfo.line_span", &L(vec![chars(s), iu(l)]), &t_span_r(catch(|| si.line_span(l))));
        ctx.case("srcinfo.read_line", &L(vec![chars(s), iu(l)]), &t_text_r(catch(|| si.read_line(l).map(|x| x.to_string()))));
    }
    for &x in idxs {
        ctx.case("srcinfo.get_pos_pair", &L(vec![chars(s), iu(x)]), &t_pos(catch(|| si.get_pos_pair(x))));
    }
    oracle(ctx, s, &si, lines, idxs);
}

fn nth_string(mut k: u64, len: usize) -> String {
    let mut s = String::new();
    for _ in 0..len { s.push(ALPHA[(k % 7) as usize]); k /= 7; }
    s
}

pub fn run(ctx: &Ctx, replay: Option<&str>) {
    if let Some(r) = replay {
        // "srcinfo.<op>\t(<chars> <n>)" or "srcinfo.count_lines\t<chars>"
        let mut it = r.splitn(2, '\t');
        let op = it.next().unwrap_or("");
        let Some(t) = it.next().and_then(parse) else { return };
        let (st, n) = match (&t, op) {
            (_, "srcinfo.count_lines") => (t.clone(), 0usize),
            (L(v), _) if v.len() == 2 => (v[0].clone(), v[1].as_i().unwrap_or(0) as usize),
            _ => return,
        };
        let Some(s) = st.to_string_lossy_chars() else { return };
        match op {
            "srcinfo.get_pos_pair" => single(ctx, &s, &[], &[n]),
            "srcinfo.count_lines" => single(ctx, &s, &[], &[]),
            _ => single(ctx, &s, &[n], &[]),
        }
        return;
    }

    // ---- exhaustive short strings -------------------------------------------------------------
    let maxlen: usize = 6;
    let (mut nstr, mut nline, mut nidx) = (0i64, 0i64, 0i64);
    for len in 0..=maxlen {
        let total = 7u64.pow(len as u32);
        let chunks = 64u64.min(total);
        let acc = std::sync::Mutex::new((0i64, 0i64));
        par_for(chunks as usize, |c| {
            let (lo, hi) = (total * c as u64 / chunks, total * (c as u64 + 1) / chunks);
            let (mut a, mut b) = (0i64, 0i64);
            for k in lo..hi {
                let (x, y) = scan(ctx, c, &nth_string(k, len));
                a += x; b += y;
            }
            let mut g = acc.lock().unwrap();
            g.0 += a; g.1 += b;
        });
        let g = acc.lock().unwrap();
        nstr += total as i64; nline += g.0; nidx += g.1;
    }
    ctx.stat("short_strings", nstr);
    ctx.stat("short_max_len", maxlen as i64);
    ctx.stat("line_queries", nline);
    ctx.stat("index_queries", nidx);

    // ---- random long strings ------------------------------------------------------------------
    let mut rng = Rng::new(ctx.seed).fork(25);
    let nlong = ctx.n(300, 4000);
    let (mut past, mut inr, mut maxlines) = (0i64, 0i64, 0i64);
    for k in 0..nlong {
        let n = match k % 4 { 0 => rng.range(0, 12), 1 => rng.range(10, 60), _ => rng.range(40, 300) } as usize;
        let narrow = rng.chance(1, 3);
        let mut s = String::new();
        for _ in 0..n {
            s.push(if narrow { *rng.pick(&ALPHA) } else { *rng.pick(&WIDE) });
        }
        if rng.chance(1, 4) { s = s.replace('\r', "\r\n"); }
        let nl = s.bytes().filter(|&c| c == b'\n').count() + 1;
        maxlines = maxlines.max(nl as i64);
        let mut lines: Vec<usize> = (0..nl.min(6)).collect();
        for _ in 0..4 { lines.push(rng.below(nl as u64 + 2) as usize); }
        lines.extend([nl - 1, nl, nl + 1, usize::MAX, 1 << 32]);
        let mut idxs: Vec<usize> = Vec::new();
        if s.len() <= 80 { idxs.extend(0..=s.len() + 10); } else {
            idxs.extend(0..6);
            idxs.extend(s.len() - 3..=s.len() + 10);
            for _ in 0..24 { idxs.push(rng.below(s.len() as u64 + 12) as usize); }
            // around newlines
            for (p, _) in s.match_indices('\n').take(8) { idxs.extend([p, p + 1]); }
        }
        idxs.extend([usize::MAX, usize::MAX - 1, 1 << 63, 1 << 32, s.len() + 1000]);
        for &x in &idxs { if x > s.len() { past += 1 } else { inr += 1 } }
        if k < 2 { ctx.sample(format!("long string #{k}: {s:?}")); }
        single(ctx, &s, &lines, &idxs);
    }
    ctx.stat("long_strings", nlong as i64);
    ctx.stat("long_idx_in_range", inr);
    ctx.stat("long_idx_past_end", past);
    ctx.stat("long_max_lines", maxlines);
}
