//! C34 — TimerDevice (src/sim/device/timer.rs).
//!
//! Correspondence: real seeded `TimerDevice`s are driven through histories of polls, toggles, resets
//! and range changes.  Every fresh count the timer draws is read back through the public
//! `get_remaining()` and handed to the model as its draw oracle, so the model is fed exactly the draws
//! the implementation made; compared per operation: (interrupt returned, remaining, enabled) or panic.
//!
//! Failing-input search (stated on the implementation only, no model involved):
//!   gap            polls strictly between two consecutive interrupts of an uninterrupted enabled
//!                  polling stretch lie outside [lo, hi] of the configured range
//!   late           an enabled timer whose count was drawn from the current range lets more than
//!                  hi + 1 polls pass without an interrupt (first interrupt late / never fires)
//!   disabled_fired a disabled timer returned an interrupt
//!   seed           two timers with the same seed and history observed differently
//!   sim_gap / sim_disabled / sim_seed   the same inside the simulator (steps between interrupt entries)
use crate::ctx::{catch, Ctx};
use crate::rng::Rng;
use crate::tree::*;
use lc3_ensemble::sim::device::{ExternalDevice, TimerDevice};
use std::ops::Bound;

#[derive(Clone, Copy, Debug, PartialEq)]
enum Op { Poll, Enable, Disable, ResetRemaining, IoReset, SetRange(Bound<u32>, Bound<u32>), SetExact(u32), SetVect(u8), SetPrio(u8) }

fn t_bound(b: Bound<u32>) -> Tree {
    match b { Bound::Included(z) => L(vec![i(0), i(z)]), Bound::Excluded(z) => L(vec![i(1), i(z)]), Bound::Unbounded => L(vec![]) }
}
fn t_op(o: Op) -> Tree {
    match o {
        Op::Poll => L(vec![i(0)]), Op::Enable => L(vec![i(1)]), Op::Disable => L(vec![i(2)]),
        Op::ResetRemaining => L(vec![i(3)]), Op::IoReset => L(vec![i(4)]),
        Op::SetRange(s, e) => L(vec![i(5), t_bound(s), t_bound(e)]),
        Op::SetExact(n) => L(vec![i(6), i(n)]), Op::SetVect(v) => L(vec![i(7), i(v)]), Op::SetPrio(p) => L(vec![i(8), i(p)]),
    }
}

/// smallest and largest value of a range given by bounds, as the API documents it (None: empty or
/// unrepresentable start) — written from the meaning of the bounds, not from SampleRange
fn lo_hi(s: Bound<u32>, e: Bound<u32>) -> Option<(u64, u64)> {
    let lo = match s { Bound::Included(z) => z as u64, Bound::Excluded(z) => z as u64 + 1, Bound::Unbounded => 0 };
    let hi = match e { Bound::Included(z) => z as i128, Bound::Excluded(z) => z as i128 - 1, Bound::Unbounded => u32::MAX as i128 };
    if lo > u32::MAX as u64 || (lo as i128) > hi { None } else { Some((lo, hi as u64)) }
}

/// the vector and priority of a returned interrupt (only the Debug form exposes the vector)
fn intr_parts(int: &lc3_ensemble::sim::device::Interrupt) -> (i128, i128) {
    let s = format!("{int:?}");
    let num = |key: &str| -> i128 {
        s.find(key).map(|k| s[k + key.len()..].chars().take_while(|c| c.is_ascii_digit()).collect::<String>().parse().unwrap_or(-1)).unwrap_or(-1)
    };
    (num("vect: "), num("priority: "))
}

#[derive(Clone, Debug, PartialEq)]
enum Obs { Ok(Option<(i128, i128)>, u32, bool), Panic }
fn t_obs(o: &Obs) -> Tree {
    match o {
        Obs::Ok(f, rem, en) => ok(vec![match f { Some((v, p)) => L(vec![I(*v), I(*p)]), None => L(vec![]) }, i(*rem), b(*en)]),
        Obs::Panic => panic(),
    }
}

struct Cfg { s: Bound<u32>, e: Bound<u32>, vect: u8, prio: u8, seed: u64 }

/// Run a history on a real timer.  Returns (result of new, observations, draws read back).
fn drive(cfg: &Cfg, ops: &[Op]) -> (Option<u32>, Vec<Obs>, Vec<u32>) {
    let mut draws = vec![];
    let Some(mut t) = catch(|| TimerDevice::new(Some(cfg.seed), (cfg.s, cfg.e), cfg.vect, cfg.prio)) else { return (None, vec![], draws) };
    draws.push(t.get_remaining());
    let first = t.get_remaining();
    let mut obs = vec![];
    for &o in ops {
        let before = t.get_remaining();
        let was_enabled = t.enabled;
        let r = catch(|| match o {
            Op::Poll => t.poll_interrupt().map(|x| intr_parts(&x)),
            Op::Enable => { t.enabled = true; None }
            Op::Disable => { t.enabled = false; None }
            Op::ResetRemaining => { t.reset_remaining(); None }
            Op::IoReset => { t.io_reset(); None }
            Op::SetRange(s, e) => { t.set_range((s, e)); None }
            Op::SetExact(n) => { t.set_exact(n); None }
            Op::SetVect(v) => { t.vect = v; None }
            Op::SetPrio(p) => { t.priority = p; None }
        });
        match r {
            None => obs.push(Obs::Panic),
            Some(f) => {
                // the documented draw points: both resets, and a poll of an enabled timer whose count ran out
                let drew = matches!(o, Op::ResetRemaining | Op::IoReset) || (o == Op::Poll && was_enabled && before == 0);
                if drew { draws.push(t.get_remaining()); }
                obs.push(Obs::Ok(f, t.get_remaining(), t.enabled));
            }
        }
    }
    (Some(first), obs, draws)
}

/// The property, stated on the observations of one history.
fn oracle(ctx: &Ctx, cfg: &Cfg, ops: &[Op], obs: &[Obs], replay: &str) {
    let mut range = lo_hi(cfg.s, cfg.e);
    let mut enabled = false;
    let mut count_from_range = true;   // the current count was drawn from the current range (or is 0)
    let mut in_stretch = false;        // inside an uninterrupted stretch of polls of an enabled timer
    let mut since_fire: Option<u64> = None; // polls since the last interrupt of this stretch
    let mut since_start: u64 = 0;      // polls since the stretch began, while no interrupt seen yet
    let mut stretch_ok = false;        // the stretch began with count_from_range
    for (k, (&o, ob)) in ops.iter().zip(obs).enumerate() {
        let Obs::Ok(fired, _, _) = ob else {
            in_stretch = false; since_fire = None;
            continue;
        };
        match o {
            Op::Poll => {
                if !enabled {
                    if fired.is_some() {
                        ctx.fail("C34", "disabled_fired", format!("disabled timer returned an interrupt at operation {k}"), replay.to_string());
                    }
                    continue;
                }
                let Some((lo, hi)) = range else { continue };
                if !in_stretch { in_stretch = true; since_fire = None; since_start = 0; stretch_ok = count_from_range; }
                if fired.is_some() {
                    if let Some(g) = since_fire {
                        if g < lo || g > hi {
                            ctx.fail("C34", "gap", format!("range {lo}..={hi} seed {}: {g} polls between consecutive interrupts (second at operation {k})", cfg.seed), replay.to_string());
                        }
                    } else if stretch_ok && since_start > hi {
                        ctx.fail("C34", "late", format!("range {lo}..={hi} seed {}: first interrupt only after {} polls (operation {k})", cfg.seed, since_start + 1), replay.to_string());
                    }
                    since_fire = Some(0);
                    count_from_range = true;
                } else {
                    match since_fire.as_mut() {
                        Some(g) => {
                            *g += 1;
                            if *g == hi + 1 {
                                ctx.fail("C34", "late", format!("range {lo}..={hi} seed {}: no interrupt within {} polls after the previous one (operation {k})", cfg.seed, hi + 1), replay.to_string());
                            }
                        }
                        None => {
                            since_start += 1;
                            if stretch_ok && since_start == hi + 1 {
                                ctx.fail("C34", "late", format!("range {lo}..={hi} seed {}: no interrupt within the first {} polls (operation {k})", cfg.seed, hi + 1), replay.to_string());
                            }
                        }
                    }
                }
            }
            Op::SetVect(_) | Op::SetPrio(_) => {}
            _ => {
                in_stretch = false; since_fire = None;
                match o {
                    Op::Enable => enabled = true,
                    Op::Disable => enabled = false,
                    Op::ResetRemaining | Op::IoReset => count_from_range = true,
                    Op::SetRange(s, e) => { range = lo_hi(s, e); count_from_range = false; }
                    Op::SetExact(n) => { range = Some((n as u64, n as u64)); count_from_range = false; }
                    _ => {}
                }
            }
        }
    }
}

fn gen_cfg(r: &mut Rng, class: u64) -> Cfg {
    let (s, e) = match class {
        // exact counts (0 included)
        0 => { let n = r.below(7) as u32; (Bound::Included(n), Bound::Included(n)) }
        // small inclusive ranges, lo = 0 often
        1 => { let lo = r.below(4) as u32; let hi = lo + r.below(5) as u32; (Bound::Included(lo), Bound::Included(hi)) }
        // exclusive end
        2 => { let lo = r.below(4) as u32; let hi = lo + 1 + r.below(5) as u32; (Bound::Included(lo), Bound::Excluded(hi)) }
        // excluded start / unbounded start with small end
        3 => { let lo = r.below(3) as u32; let hi = lo + 1 + r.below(5) as u32; (if r.chance(1, 2) { Bound::Excluded(lo) } else { Bound::Unbounded }, Bound::Included(hi)) }
        // possibly empty
        4 => { let a = r.below(5) as u32; let b2 = r.below(5) as u32; (Bound::Included(a), if r.chance(1, 2) { Bound::Excluded(b2) } else { Bound::Included(b2) }) }
        // wide / edge of u32
        5 => match r.below(6) {
            0 => (Bound::Unbounded, Bound::Unbounded),
            1 => (Bound::Excluded(u32::MAX), Bound::Unbounded),
            2 => (Bound::Included(u32::MAX), Bound::Included(u32::MAX)),
            3 => (Bound::Excluded(u32::MAX - 1), Bound::Unbounded),
            4 => (Bound::Included(r.below(3) as u32), Bound::Included(1000 + r.below(100000) as u32)),
            _ => (Bound::Included(u32::MAX - r.below(3) as u32), Bound::Excluded(u32::MAX)),
        },
        // medium ranges
        _ => { let lo = r.below(30) as u32; let hi = lo + r.below(40) as u32; (Bound::Included(lo), Bound::Included(hi)) }
    };
    let vect = if r.chance(1, 3) { 0x81 } else { r.below(256) as u8 };
    let prio = if r.chance(1, 2) { r.below(8) as u8 } else { r.below(256) as u8 };
    // seeds include the edge values 0, 1 and u64::MAX (a seed is a value, not an option)
    let seed = match r.below(12) { 0 => 0, 1 => 1, 2 => u64::MAX, _ => r.next() };
    Cfg { s, e, vect, prio, seed }
}

fn gen_bound_pair(r: &mut Rng) -> (Bound<u32>, Bound<u32>) {
    let class = r.below(5);
    let c = gen_cfg(r, class);
    (c.s, c.e)
}

fn gen_ops(r: &mut Rng, len: usize, style: u64) -> Vec<Op> {
    let mut ops = vec![];
    if style != 2 { ops.push(Op::Enable); }
    while ops.len() < len {
        let x = r.below(1000);
        let op = match style {
            // pure polling
            0 => Op::Poll,
            // mostly polling, occasional toggles and resets
            1 => match x { 0..=939 => Op::Poll, 940..=954 => Op::Enable, 955..=964 => Op::Disable, 965..=979 => Op::ResetRemaining, 980..=989 => Op::IoReset, 990..=994 => Op::SetVect(r.below(256) as u8), _ => Op::SetPrio(r.below(256) as u8) },
            // everything, short stretches
            _ => match x {
                0..=699 => Op::Poll, 700..=759 => Op::Enable, 760..=809 => Op::Disable, 810..=849 => Op::ResetRemaining, 850..=889 => Op::IoReset,
                890..=939 => { let (s, e) = gen_bound_pair(r); Op::SetRange(s, e) }
                940..=969 => Op::SetExact(r.below(6) as u32),
                970..=984 => Op::SetVect(r.below(256) as u8),
                _ => Op::SetPrio(r.below(256) as u8),
            },
        };
        ops.push(op);
    }
    ops
}

fn one_case(ctx: &Ctx, cfg: &Cfg, ops: &[Op]) {
    let (first, obs, draws) = drive(cfg, ops);
    let input = L(vec![
        L(vec![t_bound(cfg.s), t_bound(cfg.e), i(cfg.vect), i(cfg.prio)]),
        list(draws.iter(), |d| i(*d)),
        list(ops.iter(), |o| t_op(*o)),
    ]);
    let output = match first {
        None => L(vec![panic()]),
        Some(f) => { let mut v = vec![ok(vec![i(f)])]; v.extend(obs.iter().map(t_obs)); L(v) }
    };
    ctx.case("timer.run", &input, &output);
    let replay = format!("timer.run\t{input}");
    if first.is_some() {
        oracle(ctx, cfg, ops, &obs, &replay);
        // same seed, same history: same observations
        let (first2, obs2, _) = drive(cfg, ops);
        if first2 != first || obs2 != obs {
            ctx.fail("C34", "seed", format!("two timers with seed {} and the same history observed differently", cfg.seed), replay.clone());
            ctx.fail("C31", "timer_seed", format!("two timers with seed {} and the same history (construction, range changes, polls) observed differently", cfg.seed), replay.clone());
        }
        let fires = obs.iter().filter(|o| matches!(o, Obs::Ok(Some(_), _, _))).count();
        ctx.stat("polls", ops.iter().filter(|o| **o == Op::Poll).count() as i64);
        ctx.stat("interrupts", fires as i64);
        if lo_hi(cfg.s, cfg.e).is_some_and(|(lo, _)| lo == 0) { ctx.stat("histories_lo0", 1); }
    } else {
        ctx.stat("new_panics", 1);
    }
}

// ---- inside the simulator ----
mod insim {
    use super::*;
    use lc3_ensemble::asm::assemble;
    use lc3_ensemble::parse::parse_ast;
    use lc3_ensemble::sim::mem::MachineInitStrategy;
    use lc3_ensemble::sim::{SimFlags, Simulator};
    use std::sync::{Arc, RwLock};

    /// A user program that spins; the handler of vector x81 is a lone RTI.  The timer sits behind an
    /// Arc<RwLock<_>> (an ExternalDevice by the crate's own impl), so the test can toggle it.
    /// Returns for each step whether it was an interrupt entry.
    fn run(seed: u64, lo: u32, hi: u32, enabled: bool, steps: usize) -> Option<Vec<bool>> {
        let src = ".orig x3000\nLOOP ADD R0, R0, #1\nBR LOOP\n.end\n.orig x1000\nRTI\n.end\n";
        let obj = assemble(parse_ast(src).ok()?).ok()?;
        let mut sim = Simulator::new(SimFlags { machine_init: MachineInitStrategy::Known { value: 0 }, ..Default::default() });
        sim.load_obj_file(&obj).ok()?;
        sim.mem[0x0181u16] = lc3_ensemble::sim::mem::Word::new_init(0x1000);
        let mut t = TimerDevice::new(Some(seed), lo..=hi, 0x81, 4);
        t.enabled = enabled;
        let timer = Arc::new(RwLock::new(t));
        sim.device_handler.add_device(Arc::clone(&timer), &[]).ok()?;
        let mut v = vec![];
        for _ in 0..steps {
            sim.step_in().ok()?;
            v.push(sim.pc == 0x1000);
        }
        Some(v)
    }

    pub fn check(ctx: &Ctx, r: &mut Rng, n: u64) {
        for _ in 0..n {
            // lo >= 1: with a one-instruction handler no interrupt can fall inside the handler
            // (an interrupt raised while the handler runs at the same priority is dropped by the
            // simulator — that is C10's subject, not the timer's)
            let lo = 1 + r.below(6) as u32;
            let hi = lo + r.below(6) as u32;
            let seed = match r.below(10) { 0 => 0, 1 => u64::MAX, _ => r.next() };
            let steps = 400;
            let replay = format!("timer.insim\t({seed} {lo} {hi})");
            let Some(a) = catch(|| run(seed, lo, hi, true, steps)).flatten() else {
                ctx.fail("C34", "sim_setup", format!("simulator run with a timer {lo}..={hi} failed or panicked"), replay);
                continue;
            };
            let pos: Vec<usize> = a.iter().enumerate().filter(|x| *x.1).map(|x| x.0).collect();
            ctx.stat("sim_interrupts", pos.len() as i64);
            if pos.first().is_none_or(|p| *p as u64 > hi as u64) {
                ctx.fail("C34", "sim_late", format!("in the simulator, range {lo}..={hi} seed {seed}: first interrupt entry at step {:?}", pos.first()), replay.clone());
            }
            for w in pos.windows(2) {
                let g = (w[1] - w[0] - 1) as u32;
                if g < lo || g > hi {
                    ctx.fail("C34", "sim_gap", format!("in the simulator, range {lo}..={hi} seed {seed}: {g} steps between interrupt entries at steps {} and {}", w[0], w[1]), replay.clone());
                    break;
                }
            }
            if catch(|| run(seed, lo, hi, true, steps)).flatten().as_ref() != Some(&a) {
                ctx.fail("C34", "sim_seed", format!("in the simulator, two runs with timer seed {seed} differ"), replay.clone());
                ctx.fail("C31", "timer_seed", format!("in the simulator, two runs with timer seed {seed} differ"), replay.clone());
            }
            if catch(|| run(seed, lo, hi, false, 100)).flatten().is_none_or(|d| d.iter().any(|x| *x)) {
                ctx.fail("C34", "sim_disabled", format!("in the simulator, a disabled timer {lo}..={hi} interrupted"), replay.clone());
            }
        }
    }
}

pub fn run(ctx: &Ctx, _replay: Option<&str>) {
    let mut r = Rng::new(ctx.seed).fork(34);
    // 1. every small exact count and small range, pure polling (deterministic part)
    for lo in 0u32..=4 {
        for hi in lo..=5 {
            for incl in [true, false] {
                if !incl && hi == lo { continue; }
                for k in 0..ctx.n(2, 6) {
                    let cfg = Cfg { s: Bound::Included(lo), e: if incl { Bound::Included(hi) } else { Bound::Excluded(hi) }, vect: 0x81, prio: 4, seed: r.next() ^ k };
                    one_case(ctx, &cfg, &gen_ops(&mut r, ctx.n(120, 400) as usize, 0));
                }
            }
        }
    }
    // 2. random configurations and histories
    let n = ctx.n(1500, 30000);
    for k in 0..n {
        let class = k % 7;
        let cfg = gen_cfg(&mut r, class);
        let style = r.below(3);
        let len = match style { 0 => ctx.n(150, 500), 1 => ctx.n(200, 800), _ => ctx.n(60, 200) } as usize;
        one_case(ctx, &cfg, &gen_ops(&mut r, len, style));
    }
    // 3. a few long ones
    for _ in 0..ctx.n(10, 100) {
        let cfg = gen_cfg(&mut r, 6);
        one_case(ctx, &cfg, &gen_ops(&mut r, ctx.n(3000, 20000) as usize, 1));
    }
    // 4. inside the simulator (direct statement only)
    insim::check(ctx, &mut r, ctx.n(40, 400));
}
