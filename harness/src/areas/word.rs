//! C15 — `Word` (src/sim/mem.rs): Add, Sub, BitAnd, Not with initialisation tracking.
//!
//! Words are built and read through the hooks `Word::verif_from_parts` / `verif_parts`.
//! Correspondence: all pairs of a structured word list (masks: full, empty, every single bit, every
//! all-but-one-bit, halves, nibbles, alternating; data: 0, 1, x7FFF, x8000, xFFFF, random) plus
//! random x random pairs, for `+`, `-`, `&`; every listed word for `!`.
//!
//! Failing-input search, stated on the implementation only:
//!  * soundness by re-randomisation: the uninitialised bits of both operands are replaced (all
//!    assignments when there are at most 8 such bits; otherwise all-zeros, all-ones and N random
//!    fills); the result's init mask must not change and every result bit reported initialised
//!    must keep its value;
//!  * fully initialised operands (built with the public `Word::new_init`) give a word that
//!    `is_init()` and holds the wrapping 16-bit result (the assign forms with u16/i16 included).
use crate::ctx::{catch, par_for, Ctx};
use crate::rng::Rng;
use crate::tree::*;
use lc3_ensemble::sim::mem::Word;

type P = (u16, u16); // (data, init)

fn w(p: P) -> Word { Word::verif_from_parts(p.0, p.1) }
fn t_p(p: P) -> Tree { L(vec![i(p.0), i(p.1)]) }
fn t_r(r: Option<P>) -> Tree { match r { Some(p) => t_p(p), None => panic() } }

#[derive(Clone, Copy, PartialEq, Eq, Debug)]
enum Op { Add, Sub, And, Not }
impl Op {
    fn name(self) -> &'static str { match self { Op::Add => "add", Op::Sub => "sub", Op::And => "and", Op::Not => "not" } }
    fn run(self, l: P, r: P) -> Option<P> {
        catch(|| match self {
            Op::Add => (w(l) + w(r)).verif_parts(),
            Op::Sub => (w(l) - w(r)).verif_parts(),
            Op::And => (w(l) & w(r)).verif_parts(),
            Op::Not => (!w(l)).verif_parts(),
        })
    }
    /// the mathematical 16-bit result on plain values
    fn plain(self, a: u16, b: u16) -> u16 {
        match self {
            Op::Add => ((a as u32 + b as u32) % 65536) as u16,
            Op::Sub => ((65536 + a as u32 - b as u32) % 65536) as u16,
            Op::And => (0..16).map(|k| if (a >> k) & 1 == 1 && (b >> k) & 1 == 1 { 1u16 << k } else { 0 }).sum(),
            Op::Not => 65535 - a,
        }
    }
}

fn replay_str(op: Op, l: P, r: P) -> String {
    if op == Op::Not { format!("word.not\t{}", t_p(l)) } else { format!("word.{}\t({} {})", op.name(), t_p(l), t_p(r)) }
}

/// positions of the zero bits of `m`
fn holes(m: u16) -> Vec<u16> { (0..16).filter(|k| (m >> k) & 1 == 0).map(|k| 1u16 << k).collect() }
/// replace the uninitialised bits of `p` by the bits of `fill`
fn refill(p: P, fill: u16) -> P { ((p.0 & p.1) | (fill & !p.1), p.1) }

/// soundness of one operation on one operand pair; returns the number of re-randomisations tried
fn sound(ctx: &Ctx, rng: &mut Rng, op: Op, l: P, r: P, n_random: u64) -> i64 {
    let Some(base) = op.run(l, r) else {
        ctx.fail("C15", "panics", format!("{op:?} on {l:x?}, {r:x?} panics"), replay_str(op, l, r));
        return 0;
    };
    let r = if op == Op::Not { (0, 0xFFFF) } else { r };
    let (hl, hr) = (holes(l.1), holes(r.1));
    let mut tried = 0i64;
    let mut check = |l2: P, r2: P| -> bool {
        let got = op.run(l2, r2);
        let bad = match got {
            None => Some("panics"),
            Some(g) if g.1 != base.1 => Some("init_mask_depends_on_uninit_bits"),
            Some(g) if (g.0 ^ base.0) & base.1 != 0 => Some("init_bit_depends_on_uninit_bits"),
            _ => None,
        };
        if let Some(class) = bad {
            ctx.fail("C15", class, format!("{op:?}: (data,init) l={l:04x?} r={r:04x?} -> {base:04x?}, but with the uninitialised bits changed l={l2:04x?} r={r2:04x?} -> {got:04x?}"),
                replay_str(op, l, r));
            return false;
        }
        true
    };
    if hl.len() + hr.len() <= 8 {
        // every assignment of the uninitialised bits
        let all: Vec<u16> = hl.iter().chain(hr.iter()).copied().collect();
        for a in 0u32..(1 << all.len()) {
            let (mut fl, mut fr) = (0u16, 0u16);
            for (k, bit) in all.iter().enumerate() {
                if (a >> k) & 1 == 1 { if k < hl.len() { fl |= bit } else { fr |= bit } }
            }
            tried += 1;
            if !check(refill(l, fl), refill(r, fr)) { return tried; }
        }
    } else {
        for (fl, fr) in [(0u16, 0u16), (0xFFFF, 0xFFFF), (0, 0xFFFF), (0xFFFF, 0)] {
            tried += 1;
            if !check(refill(l, fl), refill(r, fr)) { return tried; }
        }
        for _ in 0..n_random {
            tried += 1;
            if !check(refill(l, rng.u16()), refill(r, rng.u16())) { return tried; }
        }
    }
    tried
}

/// fully initialised operands, through the public API only
fn full(ctx: &Ctx, a: u16, b: u16) {
    for op in [Op::Add, Op::Sub, Op::And, Op::Not] {
        let got = catch(|| {
            let (x, y) = (Word::new_init(a), Word::new_init(b));
            let z = match op { Op::Add => x + y, Op::Sub => x - y, Op::And => x & y, Op::Not => !x };
            (z.get(), z.is_init(), z == Word::new_init(z.get()))
        });
        let want = op.plain(a, b);
        if got != Some((want, true, true)) {
            ctx.fail("C15", "full_operands", format!("{op:?} on new_init({a:#06x}), new_init({b:#06x}) = (data, is_init, ==new_init) {got:x?}, expected data {want:#06x}, fully initialised"),
                replay_str(op, (a, 0xFFFF), (b, 0xFFFF)));
        }
    }
    // the assign forms
    let got = catch(|| {
        let mut v = [Word::new_init(a); 6];
        v[0] += Word::new_init(b); v[1] += b; v[2] += b as i16;
        v[3] -= Word::new_init(b); v[4] -= b; v[5] -= b as i16;
        let mut x = Word::new_init(a); x &= Word::new_init(b);
        (v.map(|z| (z.get(), z.is_init())), (x.get(), x.is_init()))
    });
    let (s, d) = (Op::Add.plain(a, b), Op::Sub.plain(a, b));
    let want = ([(s, true), (s, true), (s, true), (d, true), (d, true), (d, true)], (Op::And.plain(a, b), true));
    if got != Some(want) {
        ctx.fail("C15", "full_operands_assign", format!("+=/-=/&= on new_init({a:#06x}) with {b:#06x}: {got:x?}, expected {want:x?}"),
            replay_str(Op::Add, (a, 0xFFFF), (b, 0xFFFF)));
    }
}

fn pair(ctx: &Ctx, shard: usize, rng: &mut Rng, l: P, r: P, n_random: u64) -> i64 {
    let mut tried = 0;
    for op in [Op::Add, Op::Sub, Op::And] {
        ctx.case_to(shard, &format!("word.{}", op.name()), &L(vec![t_p(l), t_p(r)]), &t_r(op.run(l, r)));
        tried += sound(ctx, rng, op, l, r, n_random);
    }
    if l.1 == 0xFFFF && r.1 == 0xFFFF { full(ctx, l.0, r.0); }
    tried
}

fn unary(ctx: &Ctx, rng: &mut Rng, l: P, n_random: u64) -> i64 {
    ctx.case("word.not", &t_p(l), &t_r(Op::Not.run(l, (0, 0))));
    sound(ctx, rng, Op::Not, l, (0, 0xFFFF), n_random)
}

pub fn run(ctx: &Ctx, replay: Option<&str>) {
    let mut rng = Rng::new(ctx.seed).fork(15);
    let n_random = ctx.n(12, 40);
    if let Some(r) = replay {
        let mut it = r.splitn(2, '\t');
        let op = match it.next().unwrap_or("") { "word.add" => Op::Add, "word.sub" => Op::Sub, "word.and" => Op::And, "word.not" => Op::Not, _ => return };
        let Some(t) = it.next().and_then(parse) else { return };
        let p = |t: &Tree| -> Option<P> { let v = t.as_l()?; Some((v.first()?.as_i()? as u16, v.get(1)?.as_i()? as u16)) };
        let (l, rr) = if op == Op::Not { (p(&t), Some((0, 0xFFFF))) } else { let v = t.as_l().unwrap_or(&[]); (v.first().and_then(p), v.get(1).and_then(p)) };
        let (Some(l), Some(rr)) = (l, rr) else { return };
        if op == Op::Not { ctx.case("word.not", &t_p(l), &t_r(op.run(l, rr))); }
        else { ctx.case(&format!("word.{}", op.name()), &L(vec![t_p(l), t_p(rr)]), &t_r(op.run(l, rr))); }
        sound(ctx, &mut rng, op, l, rr, 200);
        if l.1 == 0xFFFF && rr.1 == 0xFFFF { full(ctx, l.0, rr.0); }
        return;
    }

    // ---- structured words ---------------------------------------------------------------------
    let mut masks: Vec<u16> = vec![0xFFFF, 0, 0x00FF, 0xFF00, 0x0F0F, 0xF0F0, 0x5555, 0xAAAA, 0x7FFF, 0xFFFE, 0x8000, 0x0001];
    for k in 0..16 { masks.push(1 << k); masks.push(!(1u16 << k)); }
    for _ in 0..ctx.n(6, 16) { masks.push(rng.u16()); masks.push(rng.u16() | rng.u16()); masks.push(rng.u16() & rng.u16()); }
    masks.sort(); masks.dedup();
    let mut words: Vec<P> = Vec::new();
    for &m in &masks {
        let mut datas = if ctx.quick() { vec![0u16, 0xFFFF, !m] } else { vec![0u16, 0xFFFF, m, !m] };
        if m == 0xFFFF || m == 0 { datas.extend([1, 0x7FFF, 0x8000, 0x8001, 0xFFFE, 2]); }
        for _ in 0..ctx.n(1, 4) { datas.push(rng.u16()); }
        // a zero that is only zero on the initialised bits / only on the uninitialised bits
        datas.push(rng.u16() & !m); datas.push(rng.u16() & m);
        datas.sort(); datas.dedup();
        for d in datas { words.push((d, m)); }
    }
    ctx.stat("masks", masks.len() as i64);
    ctx.stat("structured_words", words.len() as i64);
    let tried = std::sync::atomic::AtomicI64::new(0);
    let nw = words.len();
    par_for(nw, |a| {
        let mut rng = Rng::new(ctx.seed).fork(1500 + a as u64);
        let mut t = 0;
        for b in 0..nw { t += pair(ctx, a, &mut rng, words[a], words[b], n_random); }
        tried.fetch_add(t, std::sync::atomic::Ordering::Relaxed);
    });
    let mut t = 0;
    for &x in &words { t += unary(ctx, &mut rng, x, n_random); }
    ctx.stat("structured_pairs", (nw * nw) as i64);

    // ---- random x random ----------------------------------------------------------------------
    let nrand = ctx.n(20_000, 150_000);
    for k in 0..nrand {
        let m = |rng: &mut Rng| match rng.below(6) { 0 => 0xFFFF, 1 => 0, 2 => rng.u16() | rng.u16() | rng.u16(), 3 => rng.u16() & rng.u16(), _ => rng.u16() };
        let d = |rng: &mut Rng| match rng.below(5) { 0 => 0, 1 => 0xFFFF, _ => rng.u16() };
        let (l, r) = ((d(&mut rng), m(&mut rng)), (d(&mut rng), m(&mut rng)));
        t += pair(ctx, k as usize, &mut rng, l, r, n_random);
        if k % 4 == 0 { t += unary(ctx, &mut rng, l, n_random); }
    }
    // fully initialised operands: boundaries x boundaries and random
    let edge = [0u16, 1, 2, 0x7FFF, 0x8000, 0x8001, 0xFFFE, 0xFFFF, 0x00FF, 0xFF00, 0x5555, 0xAAAA];
    for &a in &edge { for &b in &edge { full(ctx, a, b); } }
    for _ in 0..ctx.n(20_000, 200_000) { full(ctx, rng.u16(), rng.u16()); }
    ctx.stat("random_pairs", nrand as i64);
    ctx.stat("rerandomisations", t + tried.load(std::sync::atomic::Ordering::Relaxed));
}
