//! Wire encoding of the assembly AST (mirrors coq/model/AsmAst.v: t_stmt / as_stmt).
use crate::tree::*;
use lc3_ensemble::ast::asm::{AsmInstr, Directive, Stmt, StmtKind};
use lc3_ensemble::ast::{ImmOrReg, Label, Offset, PCOffset, Reg};

pub fn reg(r: u8) -> Reg { Reg::try_from(r).unwrap() }
fn r(x: &Reg) -> Tree { i(x.reg_no()) }

pub fn t_label(l: &Label) -> Tree { L(vec![chars(&l.name), iu(l.span().start)]) }
pub fn t_ior<const N: u32>(o: &ImmOrReg<N>) -> Tree {
    match o { ImmOrReg::Imm(v) => L(vec![i(0), i(v.get())]), ImmOrReg::Reg(x) => L(vec![i(1), r(x)]) }
}
pub fn t_pcoff<const N: u32>(o: &PCOffset<i16, N>) -> Tree {
    match o { PCOffset::Offset(v) => L(vec![i(0), i(v.get())]), PCOffset::Label(l) => L(vec![i(1), t_label(l)]) }
}
pub fn t_pcoff_u(o: &PCOffset<u16, 16>) -> Tree {
    match o { PCOffset::Offset(v) => L(vec![i(0), i(v.get())]), PCOffset::Label(l) => L(vec![i(1), t_label(l)]) }
}
pub fn t_ainstr(x: &AsmInstr) -> Tree {
    use AsmInstr::*;
    match x {
        ADD(a, b, o) => L(vec![i(0), r(a), r(b), t_ior(o)]),
        AND(a, b, o) => L(vec![i(1), r(a), r(b), t_ior(o)]),
        BR(cc, o) => L(vec![i(2), i(*cc), t_pcoff(o)]),
        JMP(a) => L(vec![i(3), r(a)]),
        JSR(o) => L(vec![i(4), t_pcoff(o)]),
        JSRR(a) => L(vec![i(5), r(a)]),
        LD(a, o) => L(vec![i(6), r(a), t_pcoff(o)]),
        LDI(a, o) => L(vec![i(7), r(a), t_pcoff(o)]),
        LDR(a, b, o) => L(vec![i(8), r(a), r(b), i(o.get())]),
        LEA(a, o) => L(vec![i(9), r(a), t_pcoff(o)]),
        NOT(a, b) => L(vec![i(10), r(a), r(b)]),
        RET => L(vec![i(11)]),
        RTI => L(vec![i(12)]),
        ST(a, o) => L(vec![i(13), r(a), t_pcoff(o)]),
        STI(a, o) => L(vec![i(14), r(a), t_pcoff(o)]),
        STR(a, b, o) => L(vec![i(15), r(a), r(b), i(o.get())]),
        TRAP(v) => L(vec![i(16), i(v.get())]),
        NOP(o) => L(vec![i(17), t_pcoff(o)]),
        GETC => L(vec![i(18)]), OUT => L(vec![i(19)]), PUTC => L(vec![i(20)]), PUTS => L(vec![i(21)]),
        IN => L(vec![i(22)]), PUTSP => L(vec![i(23)]), HALT => L(vec![i(24)]),
    }
}
pub fn t_directive(d: &Directive) -> Tree {
    match d {
        Directive::Orig(a) => L(vec![i(0), i(a.get())]),
        Directive::Fill(o) => L(vec![i(1), t_pcoff_u(o)]),
        Directive::Blkw(n) => L(vec![i(2), i(n.get())]),
        Directive::Stringz(s) => L(vec![i(3), chars(s)]),
        Directive::End => L(vec![i(4)]),
        Directive::External(l) => L(vec![i(5), t_label(l)]),
    }
}
pub fn t_stmt(s: &Stmt) -> Tree {
    let n = match &s.nucleus {
        StmtKind::Instr(x) => L(vec![i(0), t_ainstr(x)]),
        StmtKind::Directive(d) => L(vec![i(1), t_directive(d)]),
    };
    L(vec![list(s.labels.iter(), t_label), n, iu(s.span.start), iu(s.span.end)])
}
pub fn t_stmts(v: &[Stmt]) -> Tree { list(v.iter(), t_stmt) }

// ---- construction helpers (ASTs are built directly, the fields are public) ----
pub fn label(name: &str, start: usize) -> Label { Label::new(name.to_string(), start..start + name.len()) }
pub fn off<const N: u32>(v: i16) -> PCOffset<i16, N> { PCOffset::Offset(Offset::new(v).expect("offset in range")) }
pub fn lab<const N: u32>(name: &str, start: usize) -> PCOffset<i16, N> { PCOffset::Label(label(name, start)) }
pub fn stmt(labels: Vec<Label>, nucleus: StmtKind, span: std::ops::Range<usize>) -> Stmt { Stmt { labels, nucleus, span } }
