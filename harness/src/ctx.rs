//! Output side of the harness: correspondence cases (sharded files), direct property
//! failures, statistics and samples for the evidence file.
use crate::tree::Tree;
use std::collections::BTreeMap;
use std::fs::File;
use std::io::{BufWriter, Write};
use std::path::PathBuf;
use std::sync::Mutex;

#[derive(Clone, Copy, PartialEq, Eq, Debug)]
pub enum Tier { Quick, Thorough }

pub struct Fail {
    pub property: String,
    /// short, stable class name of the failure; known findings are matched on (property, class)
    pub class: String,
    /// human-readable one-liner
    pub what: String,
    /// replay input (area op + tree)
    pub replay: String,
}

pub const SHARDS: usize = 16;

pub struct Ctx {
    pub tier: Tier,
    pub seed: u64,
    pub outdir: PathBuf,
    shards: Vec<Mutex<BufWriter<File>>>,
    next: std::sync::atomic::AtomicUsize,
    pub fails: Mutex<Vec<Fail>>,
    pub stats: Mutex<BTreeMap<String, i64>>,
    pub samples: Mutex<Vec<String>>,
    pub ncases: std::sync::atomic::AtomicU64,
}

impl Ctx {
    pub fn new(tier: Tier, seed: u64, outdir: PathBuf) -> Ctx {
        std::fs::create_dir_all(&outdir).unwrap();
        let shards = (0..SHARDS)
            .map(|k| Mutex::new(BufWriter::with_capacity(1 << 20, File::create(outdir.join(format!("cases-{k:02}.txt"))).unwrap())))
            .collect();
        Ctx { tier, seed, outdir, shards, next: Default::default(), fails: Default::default(),
              stats: Default::default(), samples: Default::default(), ncases: Default::default() }
    }
    pub fn quick(&self) -> bool { self.tier == Tier::Quick }
    /// pick by tier
    pub fn n(&self, quick: u64, thorough: u64) -> u64 { if self.quick() { quick } else { thorough } }

    /// Note the input the implementation is about to be run on, in a per-thread file of the output
    /// directory: if the process then dies in a way `catch_unwind` cannot catch (abort on allocation
    /// failure, stack overflow, a panic while panicking), `check` finds the candidates there and
    /// re-runs each one alone (`--replay`) to name the failing input.
    pub fn attempting(&self, replay: &str) {
        thread_local! { static SLOT: std::cell::Cell<usize> = const { std::cell::Cell::new(usize::MAX) }; }
        static NEXT_SLOT: std::sync::atomic::AtomicUsize = std::sync::atomic::AtomicUsize::new(0);
        let slot = SLOT.with(|c| { if c.get() == usize::MAX { c.set(NEXT_SLOT.fetch_add(1, std::sync::atomic::Ordering::Relaxed)); } c.get() });
        let _ = std::fs::write(self.outdir.join(format!("current-{slot:03}.txt")), replay);
    }

    /// Record one correspondence case: the model must produce `output` for op `name` on `input`.
    pub fn case(&self, name: &str, input: &Tree, output: &Tree) {
        use std::sync::atomic::Ordering::Relaxed;
        let k = self.next.fetch_add(1, Relaxed);
        self.ncases.fetch_add(1, Relaxed);
        let mut w = self.shards[k % SHARDS].lock().unwrap();
        writeln!(w, "{name}\t{input}\t{output}").unwrap();
        if k < 3 || (k % 9973 == 0 && k < 100_000) {
            let s = format!("{name} {input} -> {output}");
            if s.len() < 400 { self.samples.lock().unwrap().push(s); }
        }
    }
    /// Same, written by a worker thread into a given shard (no contention).
    pub fn case_to(&self, shard: usize, name: &str, input: &Tree, output: &Tree) {
        use std::sync::atomic::Ordering::Relaxed;
        self.ncases.fetch_add(1, Relaxed);
        let mut w = self.shards[shard % SHARDS].lock().unwrap();
        writeln!(w, "{name}\t{input}\t{output}").unwrap();
    }
    pub fn sample(&self, s: String) {
        let mut v = self.samples.lock().unwrap();
        if v.len() < 12 { v.push(s); }
    }
    pub fn fail(&self, property: &str, class: &str, what: String, replay: String) {
        let mut f = self.fails.lock().unwrap();
        // cap per property (an area may serve several properties; one must not starve the other)
        if f.iter().filter(|x| x.property == property).count() < 200 {
            f.push(Fail { property: property.into(), class: class.into(), what, replay });
        }
        drop(f);
        self.stat(&format!("fail.{property}.{class}"), 1);
    }
    pub fn stat(&self, key: &str, n: i64) {
        *self.stats.lock().unwrap().entry(key.to_string()).or_insert(0) += n;
    }
    pub fn finish(self) {
        for s in &self.shards { s.lock().unwrap().flush().unwrap(); }
        let mut f = BufWriter::new(File::create(self.outdir.join("fails.txt")).unwrap());
        for x in self.fails.lock().unwrap().iter() {
            writeln!(f, "{}\t{}\t{}\t{}", x.property, x.class, x.what.replace(['\t', '\n'], " "), x.replay.replace('\n', " ")).unwrap();
        }
        let mut f = BufWriter::new(File::create(self.outdir.join("stats.txt")).unwrap());
        writeln!(f, "cases\t{}", self.ncases.load(std::sync::atomic::Ordering::Relaxed)).unwrap();
        for (k, v) in self.stats.lock().unwrap().iter() { writeln!(f, "{k}\t{v}").unwrap(); }
        let mut f = BufWriter::new(File::create(self.outdir.join("samples.txt")).unwrap());
        for s in self.samples.lock().unwrap().iter().take(12) { writeln!(f, "{}", s.replace('\n', " ")).unwrap(); }
    }
}

/// Run `f`, turning a panic into `None`.  The default panic hook is silenced by `main`.
pub fn catch<T>(f: impl FnOnce() -> T) -> Option<T> {
    std::panic::catch_unwind(std::panic::AssertUnwindSafe(f)).ok()
}

/// Run `work(k, rng_k)` for k in 0..n on all cores.
pub fn par_for(n: usize, work: impl Fn(usize) + Sync) {
    let next = std::sync::atomic::AtomicUsize::new(0);
    let threads = std::thread::available_parallelism().map(|x| x.get()).unwrap_or(4).min(16);
    std::thread::scope(|s| {
        for _ in 0..threads {
            s.spawn(|| loop {
                let k = next.fetch_add(1, std::sync::atomic::Ordering::Relaxed);
                if k >= n { break; }
                work(k);
            });
        }
    });
}
