//! verif-harness: runs the implementation (/repo, hooks on, overflow checks on) on generated
//! cases and writes, per area, the correspondence cases for the Coq model, the direct
//! property failures found on the implementation, and statistics.
//!
//!   verif-harness <area> --tier quick|thorough --seed N --out DIR [--replay "<op>\t<tree>"]
mod areas;
mod astwire;
mod objwire;
mod simwire;
mod ctx;
mod dump_os;
mod rng;
mod tree;

use ctx::{Ctx, Tier};

thread_local! { pub static LAST_PANIC: std::cell::RefCell<String> = const { std::cell::RefCell::new(String::new()) }; }

fn main() {
    let args: Vec<String> = std::env::args().collect();
    if args.len() < 2 { eprintln!("usage: verif-harness <area> [--tier T] [--seed N] [--out DIR]"); std::process::exit(2); }
    let area = args[1].clone();
    let mut tier = Tier::Quick;
    let mut seed = 1u64;
    let mut out = std::path::PathBuf::from("out");
    let mut replay: Option<String> = None;
    let mut k = 2;
    while k < args.len() {
        match args[k].as_str() {
            "--tier" => { tier = if args[k + 1] == "thorough" { Tier::Thorough } else { Tier::Quick }; k += 2; }
            "--seed" => { seed = args[k + 1].parse().unwrap_or(1); k += 2; }
            "--out" => { out = args[k + 1].clone().into(); k += 2; }
            "--replay" => { replay = Some(args[k + 1].clone()); k += 2; }
            _ => { k += 1; }
        }
    }
    // panics are observations, not noise: remember the location, print nothing
    std::panic::set_hook(Box::new(|info| {
        let loc = info.location().map(|l| format!("{}:{}", l.file(), l.line())).unwrap_or_default();
        if std::env::var_os("VERIF_PANIC_TRACE").is_some() { eprintln!("panic at {loc}: {info}"); }
        LAST_PANIC.with(|p| *p.borrow_mut() = loc);
    }));
    if area == "dump-os" { dump_os::run(&out); return; }
    let ctx = Ctx::new(tier, seed, out);
    if !areas::run(&area, &ctx, replay.as_deref()) {
        eprintln!("unknown area {area}");
        std::process::exit(2);
    }
    ctx.finish();
}
