//! Wire encoding of ObjectFile / SymbolTable (mirrors coq/model/Obj.v: t_obj), through the
//! cfg-guarded hooks of /repo.  Labels are sorted by name, relocations by address.
use crate::tree::*;
use lc3_ensemble::asm::{ObjectFile, SymbolTable};

pub fn t_symtab(s: &SymbolTable) -> Tree {
    let mut labels = s.verif_labels();
    labels.sort_by(|a, b| a.0.chars().map(|c| c as u32).cmp(b.0.chars().map(|c| c as u32)));
    let mut rel = s.verif_relocs();
    rel.sort();
    let dbg = match (s.verif_line_blocks(), s.source_info()) {
        (Some(lines), Some(src)) => L(vec![L(vec![
            list(lines.iter(), |(k, v)| L(vec![iu(*k), list(v.iter(), |a| i(*a))])),
            chars(src.source()),
        ])]),
        _ => L(vec![]),
    };
    L(vec![
        list(labels.iter(), |(n, a, st, e)| L(vec![chars(n), L(vec![i(*a), iu(*st), b(*e)])])),
        list(rel.iter(), |(a, n)| L(vec![i(*a), chars(n)])),
        dbg,
    ])
}
pub fn t_obj(o: &ObjectFile) -> Tree {
    L(vec![
        list(o.verif_blocks().iter(), |(a, ws)| L(vec![i(*a), list(ws.iter(), |w| opt(*w, |x| i(x)))])),
        opt(o.symbol_table(), t_symtab),
    ])
}
