//! Simulator state set-up / read-back and its wire encoding (mirrors coq/model/SimWire.v).
//! A `Setup` describes a machine state completely (relative to `Simulator::new` with a `Known`
//! fill value); `build` creates the implementation's simulator in that state; `Machine::step`
//! performs one `step_in` under a lock pattern and returns the observation tree.
use crate::ctx::catch;
use crate::tree::*;
use lc3_ensemble::ast::Reg;
use lc3_ensemble::sim::device::{BufferedDisplay, BufferedKeyboard, ExternalDevice, Interrupt, InterruptFromFn, TimerDevice};
use lc3_ensemble::sim::frame::{FrameType, ParameterList};
use lc3_ensemble::sim::mem::{MachineInitStrategy, Word};
use lc3_ensemble::sim::{InternalRegister, SimErr, SimFlags, Simulator};
use std::collections::VecDeque;
use std::sync::{Arc, Mutex, RwLock};

pub fn reg(r: u8) -> Reg { Reg::try_from(r).unwrap() }
pub type W = (u16, u16); // (data, init)
pub fn word(w: W) -> Word { Word::verif_from_parts(w.0, w.1) }
pub fn t_word(w: Word) -> Tree { let (d, n) = w.verif_parts(); L(vec![i(d), i(n)]) }
pub fn t_w(w: W) -> Tree { L(vec![i(w.0), i(w.1)]) }

#[derive(Clone, Debug)]
pub enum Irq { Vec(u8, u8), Ext }
#[derive(Clone, Debug)]
pub enum Extra {
    Timer { enabled: bool, lo: u32, hi: u32, seed: u64, vect: u8, prio: u8 },
    Script(Vec<Option<Irq>>),
}
#[derive(Clone, Debug)]
pub enum PList { CC(usize), PBR(Vec<u8>) }

#[derive(Clone, Debug)]
pub struct Setup {
    pub strict: bool, pub real: bool, pub debug_frames: bool, pub ignore_priv: bool,
    pub fill: u16,
    pub overrides: Vec<(u16, W)>,
    pub regs: [W; 8],
    pub pc: u16, pub psr: u16, pub saved_sp: W,
    pub sr_defns: Vec<(u16, PList)>,
    pub alloca: Option<Vec<(u16, u16)>>,   // None = what `new` leaves (the OS blocks)
    pub instrs: u64,
    pub mcr: bool,
    pub ireg: Vec<(u16, u8)>,             // added on top of the default PSR/MCR mappings
    pub unmap_default: Vec<u16>,          // default mappings removed
    pub kb: Option<(Vec<u8>, bool)>,
    pub ds: Option<Vec<u8>>,
    pub extras: Vec<Extra>,
}
impl Setup {
    pub fn plain(fill: u16) -> Setup {
        Setup { strict: false, real: false, debug_frames: false, ignore_priv: false, fill, overrides: vec![],
                regs: [(fill, 0); 8], pc: 0x3000, psr: 0x8002, saved_sp: (0x3000, 0xFFFF), sr_defns: vec![], alloca: None,
                instrs: 0, mcr: false, ireg: vec![], unmap_default: vec![], kb: None, ds: None, extras: vec![] }
    }
    pub fn flags(&self) -> SimFlags {
        SimFlags { strict: self.strict, use_real_traps: self.real, machine_init: MachineInitStrategy::Known { value: self.fill },
                   debug_frames: self.debug_frames, ignore_privilege: self.ignore_priv }
    }
}

pub enum ExtraH { Timer(Arc<Mutex<TimerDevice>>), Script(Arc<Mutex<VecDeque<Option<Irq>>>>) }

pub struct Machine {
    pub sim: Simulator,
    pub kb: Option<Arc<RwLock<VecDeque<u8>>>>,
    pub ds: Option<Arc<RwLock<Vec<u8>>>>,
    pub extras: Vec<ExtraH>,
    pub initial_mem: Vec<Word>,
    pub alloca0: Vec<(u16, u16)>,
}

fn ireg_of(k: u8) -> InternalRegister {
    match k { 0 => InternalRegister::PC, 1 => InternalRegister::PSR, 2 => InternalRegister::MCR, _ => InternalRegister::SavedSP }
}
fn ireg_code(r: InternalRegister) -> u8 {
    match r { InternalRegister::PC => 0, InternalRegister::PSR => 1, InternalRegister::MCR => 2, InternalRegister::SavedSP => 3 }
}

thread_local! {
    /// how `Machine::step` holds a "locked" buffer: 0 = exclusive (write) guard, 1 = shared (read) guard.
    /// For the implementation both make `try_write` fail with `WouldBlock`, so the model's lock flag is the same.
    pub static LOCK_KIND: std::cell::Cell<u8> = std::cell::Cell::new(0);
    /// machines built while this is set get poisoned keyboard / display buffer locks (another thread
    /// panicked while holding the write guard); the devices recover the guard, so nothing else changes
    pub static POISON: std::cell::Cell<bool> = std::cell::Cell::new(false);
}
/// poison an `RwLock` without invoking the panic hook
pub fn poison<T: Send + Sync + 'static>(b: &Arc<RwLock<T>>) {
    let c = b.clone();
    let _ = std::thread::spawn(move || { let _g = c.write().unwrap_or_else(|e| e.into_inner()); std::panic::resume_unwind(Box::new(())); }).join();
}
pub fn build(st: &Setup) -> Machine {
    let mut sim = Simulator::new(st.flags());
    for (a, w) in &st.overrides { sim.mem[*a] = word(*w); }
    for r in 0..8u8 { sim.reg_file[reg(r)] = word(st.regs[r as usize]); }
    sim.pc = st.pc;
    sim.verif_set_psr_raw(st.psr);
    sim.verif_set_saved_sp(word(st.saved_sp));
    for (a, p) in &st.sr_defns {
        let pl = match p {
            PList::CC(n) => ParameterList::with_calling_convention(&vec!["p"; *n]),
            PList::PBR(rs) => ParameterList::with_pass_by_register(&rs.iter().map(|r| ("p", reg(*r))).collect::<Vec<_>>(), None),
        };
        sim.frame_stack.set_subroutine_def(*a, pl);
    }
    if let Some(a) = &st.alloca { sim.verif_set_alloca(a.clone()); }
    sim.instructions_run = st.instrs;
    sim.mcr().store(st.mcr, std::sync::atomic::Ordering::Relaxed);
    for a in &st.unmap_default { sim.munmap_internal(*a); }
    for (a, k) in &st.ireg { let _ = sim.mmap_internal(*a, ireg_of(*k)); }
    let mut kb = None;
    if let Some((q, ie)) = &st.kb {
        let buf = Arc::new(RwLock::new(q.iter().copied().collect::<VecDeque<u8>>()));
        sim.device_handler.set_keyboard(BufferedKeyboard::new(buf.clone()));
        if *ie { sim.device_handler.io_write(0xFE00, 1 << 14); }
        kb = Some(buf);
    }
    let mut ds = None;
    if let Some(b) = &st.ds {
        let buf = Arc::new(RwLock::new(b.clone()));
        sim.device_handler.set_display(BufferedDisplay::new(buf.clone()));
        ds = Some(buf);
    }
    let mut extras = vec![];
    for x in &st.extras {
        match x {
            Extra::Timer { enabled, lo, hi, seed, vect, prio } => {
                let mut t = TimerDevice::new(Some(*seed), *lo..=*hi, *vect, *prio);
                t.enabled = *enabled;
                let h = Arc::new(Mutex::new(t));
                let _ = sim.device_handler.add_device(h.clone(), &[]);
                extras.push(ExtraH::Timer(h));
            }
            Extra::Script(l) => {
                let q = Arc::new(Mutex::new(l.iter().cloned().collect::<VecDeque<_>>()));
                let q2 = q.clone();
                let dev = InterruptFromFn::new(move || {
                    match q2.lock().unwrap().pop_front() {
                        Some(Some(Irq::Vec(v, p))) => Some(Interrupt::vectored(v, p)),
                        Some(Some(Irq::Ext)) => Some(Interrupt::external(std::fmt::Error)),
                        _ => None,
                    }
                });
                let _ = sim.device_handler.add_device(dev, &[]);
                extras.push(ExtraH::Script(q));
            }
        }
    }
    let initial_mem: Vec<Word> = (0..=u16::MAX).map(|a| sim.mem[a]).collect();
    let alloca0 = sim.verif_alloca();
    if POISON.with(|c| c.get()) {
        if let Some(b) = &kb { poison(b); }
        if let Some(b) = &ds { poison(b); }
    }
    Machine { sim, kb, ds, extras, initial_mem, alloca0 }
}

pub fn err_code(e: &SimErr) -> i128 {
    match e {
        SimErr::IllegalOpcode => 0, SimErr::InvalidInstrFormat => 1, SimErr::PrivilegeViolation => 2,
        SimErr::AccessViolation => 3, SimErr::UnresolvedExternal(_) => 4, SimErr::Interrupt(_) => 5,
        SimErr::StrictRegSetUninit => 6, SimErr::StrictMemSetUninit => 7, SimErr::StrictIOSetUninit => 8,
        SimErr::StrictJmpAddrUninit => 9, SimErr::StrictSRAddrUninit => 10, SimErr::StrictMemAddrUninit => 11,
        SimErr::StrictPCCurrUninit => 12, SimErr::StrictPCNextUninit => 13, SimErr::StrictPSRSetUninit => 14,
    }
}

/// result of one step: 0 ok / 1 virtual halt (step_in reports Ok but the PC did not advance past a
/// HALT) / 2 error / 3 panic.  `step_in` maps StepBreak::Halt to Ok(()); the model's OHalt is
/// therefore printed as ok too (see t_outcome on the model side: the driver compares after the
/// harness canonicalises both to 0).
#[derive(Clone, Debug, PartialEq)]
pub enum Outcome { Ok, Err(i128), Panic }

impl Machine {
    fn timer_times(&self) -> Vec<Option<(bool, u32)>> {
        self.extras.iter().map(|x| match x {
            ExtraH::Timer(t) => { let t = t.lock().unwrap(); Some((t.enabled, t.get_remaining())) }
            _ => None,
        }).collect()
    }
    pub fn t_devs(&mut self) -> Tree {
        let mut v = vec![L(vec![i(0)])];
        match &self.kb {
            Some(b) => {
                let q: Vec<u8> = b.read().unwrap_or_else(|e| e.into_inner()).iter().copied().collect();
                let ie = self.sim.device_handler.io_read(0xFE00, false).map(|x| x & (1 << 14) != 0).unwrap_or(false);
                v.push(L(vec![i(1), bytes(&q), b_(ie)]));
            }
            None => v.push(L(vec![i(0)])),
        }
        match &self.ds {
            Some(b) => v.push(L(vec![i(2), bytes(&b.read().unwrap_or_else(|e| e.into_inner()))])),
            None => v.push(L(vec![i(0)])),
        }
        for x in &self.extras {
            match x {
                ExtraH::Timer(t) => {
                    let t = t.lock().unwrap();
                    let (lo, hi) = range_of(&t);
                    v.push(L(vec![i(3), b_(t.enabled), i(lo), i(hi), i(t.get_remaining()), i(t.vect), i(t.priority)]));
                }
                ExtraH::Script(q) => v.push(L(vec![i(4), iu(q.lock().unwrap().len())])),
            }
        }
        L(v)
    }
    /// One `step_in` with the given locks held by "another thread"; returns (outcome, env tree, observation tree)
    pub fn step(&mut self, kb_locked: bool, ds_locked: bool) -> (Outcome, Tree, Tree) {
        let before = self.timer_times();
        let kbh = self.kb.clone();
        let dsh = self.ds.clone();
        let r = {
            let shared = LOCK_KIND.with(|c| c.get()) == 1;
            let _g1 = if kb_locked && !shared { kbh.as_ref().map(|b| b.write().unwrap_or_else(|e| e.into_inner())) } else { None };
            let _g2 = if ds_locked && !shared { dsh.as_ref().map(|b| b.write().unwrap_or_else(|e| e.into_inner())) } else { None };
            let _g3 = if kb_locked && shared { kbh.as_ref().map(|b| b.read().unwrap_or_else(|e| e.into_inner())) } else { None };
            let _g4 = if ds_locked && shared { dsh.as_ref().map(|b| b.read().unwrap_or_else(|e| e.into_inner())) } else { None };
            let sim = &mut self.sim;
            catch(|| sim.step_in())
        };
        let after = self.timer_times();
        let mut draws = vec![];
        for (b, a) in before.iter().zip(after.iter()) {
            if let (Some((true, 0)), Some((_, t))) = (b, a) { draws.push(i(*t)); }
        }
        // a lock flag only exists in the model when the device exists; keep the flag as given
        let env = L(vec![b_(kb_locked && self.kb.is_some()), b_(ds_locked && self.ds.is_some()), L(draws)]);
        let out = match &r { None => Outcome::Panic, Some(Ok(())) => Outcome::Ok, Some(Err(e)) => Outcome::Err(err_code(e)) };
        let obs = self.observe(&out);
        (out, env, obs)
    }
    pub fn observe(&mut self, out: &Outcome) -> Tree {
        let to = match out { Outcome::Ok => L(vec![i(0)]), Outcome::Err(c) => L(vec![i(2), I(*c)]), Outcome::Panic => L(vec![i(3)]) };
        if *out == Outcome::Panic { return L(vec![to]); }
        let sim = &mut self.sim;
        let ppc = catch(|| sim.prefetch_pc());
        let mut acc: Vec<(u16, u8)> = sim.observer.take_mem_accesses()
            .map(|(a, s)| (a, (s.read() as u8) | ((s.written() as u8) << 1) | ((s.modified() as u8) << 2))).collect();
        acc.sort();
        let obs = list(acc.iter(), |(a, f)| { let (d, n) = sim.mem[*a].verif_parts(); L(vec![i(*a), i(*f), i(d), i(n)]) });
        let frames = opt(sim.frame_stack.frames(), |fs| list(fs.iter(), |f| L(vec![
            i(f.caller_addr), i(f.callee_addr),
            i(match f.frame_type { FrameType::Subroutine => 0, FrameType::Trap => 1, FrameType::Interrupt => 2 }),
            opt(f.frame_ptr, t_word), list(f.arguments.iter(), |w| t_word(*w))])));
        let regs = list(0..8u8, |r| t_word(sim.reg_file[reg(r)]));
        let head = vec![to, i(sim.pc), i(sim.psr().get()), t_word(sim.verif_saved_sp()), regs,
            b_(sim.verif_prefetch()), match ppc { Some(p) => i(p), None => i(-1) },
            I(sim.instructions_run as i128), I(sim.frame_stack.len() as i128),
            b_(sim.mcr().load(std::sync::atomic::Ordering::Relaxed)), obs];
        let devs = self.t_devs();
        let mut v = head; v.push(devs); v.push(frames);
        L(v)
    }
    pub fn mem_diff(&self) -> Tree {
        let mut v = vec![];
        for a in 0..=u16::MAX {
            let w = self.sim.mem[a];
            if w != self.initial_mem[a as usize] { let (d, n) = w.verif_parts(); v.push(L(vec![i(a), i(d), i(n)])); }
        }
        L(v)
    }
}
impl Machine {
    /// addresses whose DATA differs from the initial image (initialisation masks ignored)
    pub fn mem_data_diff(&self) -> Tree {
        let mut v = vec![];
        for a in 0..=u16::MAX {
            let w = self.sim.mem[a];
            if w.get() != self.initial_mem[a as usize].get() { v.push(L(vec![i(a), i(w.get())])); }
        }
        L(v)
    }
}
pub fn b_(x: bool) -> Tree { b(x) }

fn range_of(t: &TimerDevice) -> (u32, u32) {
    use std::ops::{Bound, RangeBounds};
    let r = t.get_range();
    let lo = match r.start_bound() { Bound::Included(&s) => s, Bound::Excluded(&s) => s + 1, Bound::Unbounded => 0 };
    let hi = match r.end_bound() { Bound::Included(&s) => s, Bound::Excluded(&s) => s.saturating_sub(1), Bound::Unbounded => u32::MAX };
    (lo, hi)
}

/// The state tree the model decodes (coq/model/SimWire.v: as_state). `timer_times` are the
/// current remaining times of the timers (their first draw happened in `TimerDevice::new`).
pub fn t_setup(st: &Setup, m: &mut Machine) -> Tree {
    let flags = L(vec![b(st.strict), b(st.real), b(st.debug_frames), b(st.ignore_priv)]);
    let base = L(vec![i(st.fill), list(st.overrides.iter(), |(a, w)| L(vec![i(*a), i(w.0), i(w.1)]))]);
    let regs = list(st.regs.iter(), |w| t_w(*w));
    let frames = if st.debug_frames { L(vec![L(vec![])]) } else { L(vec![]) };
    let srd = list(st.sr_defns.iter(), |(a, p)| L(vec![i(*a), match p {
        PList::CC(n) => L(vec![i(0), iu(*n)]),
        PList::PBR(rs) => L(vec![i(1), list(rs.iter(), |r| i(*r))]),
    }]));
    let alloca = list(m.sim.verif_alloca().iter(), |(a, l)| L(vec![i(*a), i(*l)]));
    let mut ir = m.sim.verif_ireg_map();
    ir.sort_by_key(|x| x.0);
    let ireg = list(ir.iter(), |(a, r)| L(vec![i(*a), i(ireg_code(*r))]));
    // scripts are sent in full; timers with their current time
    let mut devs = vec![L(vec![i(0)])];
    devs.push(match &st.kb { Some((q, ie)) => L(vec![i(1), bytes(q), b(*ie)]), None => L(vec![i(0)]) });
    devs.push(match &st.ds { Some(bf) => L(vec![i(2), bytes(bf)]), None => L(vec![i(0)]) });
    for (x, h) in st.extras.iter().zip(m.extras.iter()) {
        match (x, h) {
            (Extra::Timer { enabled, lo, hi, vect, prio, .. }, ExtraH::Timer(t)) =>
                devs.push(L(vec![i(3), b(*enabled), i(*lo), i(*hi), i(t.lock().unwrap().get_remaining()), i(*vect), i(*prio)])),
            (Extra::Script(l), _) => devs.push(L(vec![i(4), list(l.iter(), |e| match e {
                None => L(vec![]), Some(Irq::Vec(v, p)) => L(vec![i(0), i(*v), i(*p)]), Some(Irq::Ext) => L(vec![i(1)]) })])),
            _ => {}
        }
    }
    L(vec![flags, base, regs, i(st.pc), i(st.psr), t_w(st.saved_sp), i(0), frames, srd, alloca,
           I(st.instrs as i128), b(false), L(vec![]), b(st.mcr), ireg, L(devs)])
}
