//! Wire format shared with the Coq model (coq/model/Tree.v): integers and nested lists.
use std::fmt;

#[derive(Clone, Debug, PartialEq, Eq, Hash)]
pub enum Tree {
    I(i128),
    L(Vec<Tree>),
}
pub use Tree::{I, L};

impl fmt::Display for Tree {
    fn fmt(&self, f: &mut fmt::Formatter<'_>) -> fmt::Result {
        match self {
            Tree::I(z) => write!(f, "{z}"),
            Tree::L(l) => {
                f.write_str("(")?;
                for (i, x) in l.iter().enumerate() {
                    if i > 0 { f.write_str(" ")?; }
                    x.fmt(f)?;
                }
                f.write_str(")")
            }
        }
    }
}

pub fn i<T: Into<i128>>(z: T) -> Tree { Tree::I(z.into()) }
pub fn iu(z: usize) -> Tree { Tree::I(z as i128) }
pub fn b(x: bool) -> Tree { Tree::I(x as i128) }
pub fn ok(l: Vec<Tree>) -> Tree { let mut v = vec![I(0)]; v.extend(l); L(v) }
pub fn err(l: Vec<Tree>) -> Tree { let mut v = vec![I(1)]; v.extend(l); L(v) }
pub fn panic() -> Tree { L(vec![I(2)]) }
pub fn opt<T>(o: Option<T>, f: impl FnOnce(T) -> Tree) -> Tree {
    match o { Some(x) => L(vec![f(x)]), None => L(vec![]) }
}
pub fn list<T>(it: impl IntoIterator<Item = T>, f: impl FnMut(T) -> Tree) -> Tree {
    L(it.into_iter().map(f).collect())
}
/// a string as its code points
pub fn chars(s: &str) -> Tree { L(s.chars().map(|c| I(c as i128)).collect()) }
/// bytes
pub fn bytes(s: &[u8]) -> Tree { L(s.iter().map(|c| I(*c as i128)).collect()) }

/// Parse the textual form (used for replay files / corpus).
pub fn parse(s: &str) -> Option<Tree> {
    let b = s.as_bytes();
    let mut pos = 0usize;
    fn item(b: &[u8], pos: &mut usize) -> Option<Tree> {
        while *pos < b.len() && b[*pos] == b' ' { *pos += 1; }
        if *pos >= b.len() { return None; }
        if b[*pos] == b'(' {
            *pos += 1;
            let mut v = vec![];
            loop {
                while *pos < b.len() && b[*pos] == b' ' { *pos += 1; }
                if *pos >= b.len() { return None; }
                if b[*pos] == b')' { *pos += 1; return Some(L(v)); }
                v.push(item(b, pos)?);
            }
        } else {
            let st = *pos;
            while *pos < b.len() && !matches!(b[*pos], b' ' | b'(' | b')') { *pos += 1; }
            std::str::from_utf8(&b[st..*pos]).ok()?.parse::<i128>().ok().map(I)
        }
    }
    item(b, &mut pos)
}

impl Tree {
    pub fn as_i(&self) -> Option<i128> { if let I(z) = self { Some(*z) } else { None } }
    pub fn as_l(&self) -> Option<&[Tree]> { if let L(l) = self { Some(l) } else { None } }
    pub fn to_string_lossy_chars(&self) -> Option<String> {
        self.as_l()?.iter().map(|t| t.as_i().and_then(|c| char::from_u32(c as u32))).collect()
    }
}
