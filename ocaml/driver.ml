(* driver.ml — generic correspondence driver.
   Reads lines  NAME \t INPUT-TREE \t IMPL-OUTPUT-TREE  (as printed by the Rust
   harness), evaluates the extracted Coq model operation NAME on INPUT-TREE,
   prints the model's output tree in the same syntax and compares the two
   strings.  All decoding of arguments and encoding of results is done by
   extracted Gallina code (Model.all_ops); this file only converts between text
   and the extracted [tree]/[Z] types.

   Output: one line per disagreement
       MISMATCH \t NAME \t INPUT \t impl=... \t model=...
   and a final line  SUMMARY \t <cases> \t <mismatches> \t <unknown ops>.
   With --echo every evaluated case is printed as  NAME \t INPUT \t MODEL-OUTPUT. *)

open Model

(* ---------- Z <-> text ---------- *)
let rec pos_of_int (n : int) : positive =
  if n = 1 then XH
  else if n land 1 = 0 then XO (pos_of_int (n lsr 1))
  else XI (pos_of_int (n lsr 1))

let z_of_int (n : int) : z =
  if n = 0 then Z0 else if n > 0 then Zpos (pos_of_int n) else Zneg (pos_of_int (- n))

(* big decimal -> positive, by repeated halving of a digit array *)
let pos_of_decimal (s : Stdlib.String.t) : positive option =
  (* returns None for zero *)
  let d = Array.init (String.length s) (fun i -> Char.code s.[i] - 48) in
  let is_zero () = Array.for_all (fun x -> x = 0) d in
  let halve () =
    let carry = ref 0 in
    for i = 0 to Array.length d - 1 do
      let cur = !carry * 10 + d.(i) in
      d.(i) <- cur / 2; carry := cur mod 2
    done; !carry in
  if is_zero () then None else begin
    let bits = ref [] in
    while not (is_zero ()) do bits := halve () :: !bits done;
    (* !bits is MSB first; the first is 1 *)
    let rec build acc = function
      | [] -> acc
      | b :: r -> build (if b = 1 then (fun p -> acc (XI p)) else (fun p -> acc (XO p))) r in
    (* build LSB-outermost: process from MSB: result = fold *)
    let rec fold p = function
      | [] -> p
      | b :: r -> fold (if b = 1 then XI p else XO p) r in
    ignore build;
    match !bits with
    | _ :: rest -> Some (fold XH rest)
    | [] -> None
  end

let z_of_string (s : Stdlib.String.t) : z =
  let neg = String.length s > 0 && s.[0] = '-' in
  let body = if neg then String.sub s 1 (String.length s - 1) else s in
  if String.length body <= 17 then z_of_int (int_of_string s)
  else match pos_of_decimal body with
    | None -> Z0
    | Some p -> if neg then Zneg p else Zpos p

let rec pos_bits (p : positive) (acc : int list) : int list =
  (* LSB first *)
  match p with XH -> List.rev (1 :: acc) | XO q -> pos_bits q (0 :: acc) | XI q -> pos_bits q (1 :: acc)

let string_of_pos (p : positive) : Stdlib.String.t =
  let bits = pos_bits p [] in
  let n = List.length bits in
  if n <= 61 then begin
    let v = ref 0 in
    List.iteri (fun i b -> if b = 1 then v := !v lor (1 lsl i)) bits;
    string_of_int !v
  end else begin
    (* decimal digit array, little endian, double-and-add from the MSB *)
    let digits = ref [| 0 |] in
    let double_add b =
      let carry = ref b in
      let d = !digits in
      for i = 0 to Array.length d - 1 do
        let cur = d.(i) * 2 + !carry in
        d.(i) <- cur mod 10; carry := cur / 10
      done;
      if !carry > 0 then digits := Array.append d [| !carry |] in
    List.iter double_add (List.rev bits);
    let d = !digits in
    String.init (Array.length d) (fun i -> Char.chr (48 + d.(Array.length d - 1 - i)))
  end

let string_of_z = function
  | Z0 -> "0"
  | Zpos p -> string_of_pos p
  | Zneg p -> "-" ^ string_of_pos p

(* ---------- tree <-> text ---------- *)
let parse_tree (s : Stdlib.String.t) : tree =
  let n = String.length s in
  let pos = ref 0 in
  let rec skip () = if !pos < n && s.[!pos] = ' ' then (incr pos; skip ()) in
  let rec item () : tree =
    skip ();
    if !pos >= n then failwith "parse_tree: eof"
    else if s.[!pos] = '(' then begin
      incr pos;
      let acc = ref [] in
      let rec loop () =
        skip ();
        if !pos >= n then failwith "parse_tree: unclosed"
        else if s.[!pos] = ')' then incr pos
        else (acc := item () :: !acc; loop ()) in
      loop (); L (List.rev !acc)
    end else begin
      let st = !pos in
      while !pos < n && s.[!pos] <> ' ' && s.[!pos] <> ')' && s.[!pos] <> '(' do incr pos done;
      I (z_of_string (String.sub s st (!pos - st)))
    end in
  item ()

let print_tree (t : tree) : Stdlib.String.t =
  let b = Buffer.create 64 in
  let rec go = function
    | I z -> Buffer.add_string b (string_of_z z)
    | L l ->
      Buffer.add_char b '(';
      List.iteri (fun i x -> if i > 0 then Buffer.add_char b ' '; go x) l;
      Buffer.add_char b ')' in
  go t; Buffer.contents b

(* ---------- Coq string -> OCaml string ---------- *)
let char_of_ascii (Ascii (b0, b1, b2, b3, b4, b5, b6, b7)) =
  let v b i = if b then 1 lsl i else 0 in
  Char.chr (v b0 0 + v b1 1 + v b2 2 + v b3 3 + v b4 4 + v b5 5 + v b6 6 + v b7 7)
let rec ocaml_string = function
  | EmptyString -> ""
  | String (c, r) -> String.make 1 (char_of_ascii c) ^ ocaml_string r

let table : (Stdlib.String.t, tree -> tree) Hashtbl.t = Hashtbl.create 64
let () = List.iter (fun (n, f) -> Hashtbl.replace table (ocaml_string n) f) all_ops

let () =
  let echo = Array.length Sys.argv > 1 && Sys.argv.(1) = "--echo" in
  let total = ref 0 and bad = ref 0 and unknown = ref 0 in
  (try
     while true do
       let line = input_line stdin in
       match String.split_on_char '\t' line with
       | name :: input :: rest ->
         incr total;
         (match Hashtbl.find_opt table name with
          | None -> incr unknown; Printf.printf "UNKNOWN\t%s\n" name
          | Some f ->
            let out =
              try print_tree (f (parse_tree input))
              with Stack_overflow -> "(STACK_OVERFLOW)" | Failure m -> "(FAILURE " ^ m ^ ")" in
            if echo then Printf.printf "%s\t%s\t%s\n" name input out;
            (match rest with
             | expected :: _ when expected <> out ->
               incr bad;
               Printf.printf "MISMATCH\t%s\t%s\timpl=%s\tmodel=%s\n" name input expected out
             | _ -> ()))
       | _ -> ()
     done
   with End_of_file -> ());
  Printf.printf "SUMMARY\t%d\t%d\t%d\n" !total !bad !unknown
