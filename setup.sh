#!/bin/bash
# Build the whole framework from files on disk (offline): generated Coq files, the Coq
# development (full .vo), the extracted OCaml driver and the Rust harness.
cd "$(dirname "$0")"
export CARGO_NET_OFFLINE=true
exec python3 ./check --setup
