#!/bin/bash
# tools/confirm_mutants.sh <id> [m<k>...] : confirm mutants of /tmp/mut/<id>.out in the scratch worktree /tmp/mut/<id>
# (suite passes with the patch; demo fails with it and passes without); prints one log line per mutant in the format
# tools/store_from_log.py reads.  Does not touch /repo and runs no check.
id=$1; shift
wt=/tmp/mut/$id
ks="$@"; [ -z "$ks" ] && ks=$(ls /tmp/mut/$id.out | grep '^m')
for k in $ks; do
  d=/tmp/mut/$id.out/$k
  [ -f "$d/patch.diff" ] || continue
  cd $wt && git checkout -q -- . && git clean -fdq tests examples 2>/dev/null
  if ! git apply --check "$d/patch.diff" 2>/dev/null; then echo "$id $k: patch does not apply"; continue; fi
  mkdir -p tests && cp "$d/demo.rs" tests/demo.rs
  base=$(cargo test --offline --test demo 2>&1 | grep -E "^test result" | head -1)
  git apply "$d/patch.diff"
  suite=$(cargo test --offline --lib 2>&1 | grep -E "^test result" | head -1)
  withm=$(cargo test --offline --test demo 2>&1 | grep -E "^test result" | head -1)
  git checkout -q -- . ; git clean -fdq tests 2>/dev/null
  echo "$id $k: demo-without=[$base] suite-with=[$suite] demo-with=[$withm] check=[pending]"
done
