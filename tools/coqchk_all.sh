#!/bin/bash
# tools/coqchk_all.sh [jobs] : re-check the compiled closure of every coq/props/Cxx.vo with Coq's independent checker
# (coqchk -o: also lists axioms, type-in-type, unsafe fixpoints, assumed positivity).  Needs a full build first
# (`./check --setup` or any ./check run builds what it needs; this script runs `make` for all props).
# Writes build/coqchk/<id>.txt and the summary docs/coqchk_summary.txt.  Slow (the largest closures take 30+ minutes).
cd "$(dirname "$0")/../coq" || exit 2
jobs=${1:-8}
mkdir -p ../build/coqchk
make -j16 $(ls props/C*.v | sed 's/\.v$/.vo/') > ../build/coqchk/make.log 2>&1 || { echo "make failed, see build/coqchk/make.log"; exit 1; }
ls props/C*.v | sed 's#props/##; s#\.v$##' | xargs -P "$jobs" -I{} bash -c \
  '/usr/bin/time -f "wall %es, max RSS %M KB" coqchk -o -silent -Q gen Gen -Q model Model -Q spec Spec -Q proofs Proofs -Q props Props Props.{} > ../build/coqchk/{}.txt 2>&1; echo "exit $?" >> ../build/coqchk/{}.txt'
{
  echo "coqchk -o over the closure of every props file ($(coqchk --version 2>/dev/null | head -1)), $(date -u +%Y-%m-%d)"
  for f in ../build/coqchk/C*.txt; do
    id=$(basename $f .txt)
    ax=$(grep -A1 "^\* Axioms" $f | tr '\n' ' ' | sed 's/  */ /g')
    tt=$(grep "type-in-type" $f | sed 's/.*: //'); uf=$(grep "unsafe" $f | sed 's/.*: //'); po=$(grep "positivity" $f | sed 's/.*: //')
    echo "$id: $ax; type-in-type: $tt; unsafe fixpoints: $uf; assumed positivity: $po; $(grep -E '^wall' $f); $(grep '^exit' $f)"
  done
} > ../docs/coqchk_summary.txt
cat ../docs/coqchk_summary.txt
