#!/usr/bin/env python3
"""Regenerate MANIFEST.json from tools/props.py (single source of truth for what is claimed)."""
import json, os, sys
HERE = os.path.dirname(os.path.abspath(__file__))
sys.path.insert(0, HERE)
from propcfg import PROPS
VERIF = os.path.dirname(HERE)
ids = [json.loads(l)["id"] for l in open(os.path.join(VERIF, "properties.jsonl"))]
hooks_commits = []
hp = os.path.join(VERIF, "hooks_commits.txt")
if os.path.exists(hp):
    hooks_commits = [l.split()[0] for l in open(hp) if l.strip()]
not_yet = {}
np_ = os.path.join(VERIF, "tools", "not_applicable.json")
if os.path.exists(np_):
    not_yet = json.load(open(np_))
m = {
    "version": 1,
    "setup_cmd": "./setup.sh",
    "hooks": {
        "guard": "endorpersand_lc3_ensemble_verif",
        "enable": "RUSTFLAGS='--cfg endorpersand_lc3_ensemble_verif' (set in harness/.cargo/config.toml; the harness depends on /repo by path)",
        "baseline_off_cmd": "cd /repo && cargo test --workspace --no-fail-fast --offline",
        "source_commits": hooks_commits,
        "add_only": True,
    },
    "engines": [
        {"name": "coq-proof+correspondence", "path": "check", "serves_properties": sorted(PROPS),
         "kind_free_text": "Coq 8.16.1 theorems about a hand-written executable Gallina model (coq/model), tied to /repo on every run by differential execution of the extracted model (OCaml) and the implementation (Rust harness) on generated/exhaustive cases, plus constants regenerated from source (tools/translate.py); a direct property oracle on the implementation searches for failing inputs"}
    ],
    "checks": [],
    "not_applicable": [],
    "notes": "Every check: ./check <id> [--tier quick|thorough]; VERIF_SEED seeds every random choice. Known findings: known_findings.txt. Design: DESIGN.md.",
}
for pid in ids:
    if pid in PROPS:
        c = PROPS[pid]
        m["checks"].append({
            "property_id": pid,
            "quick_cmd": "./check %s --tier quick" % pid,
            "thorough_cmd": "./check %s --tier thorough" % pid,
            "evidence_file": "evidence/%s.json" % pid,
            "replay_cmd_template": "./check %s --replay {path}" % pid,
            "engine": "coq-proof+correspondence",
            "level_claimed": {"category": c.get("level", "proof"), "text": c["level_text"], "design_ref": c.get("design_ref", "")},
            "level_note": c["level_note"],
            "technique": c["technique"],
        })
    else:
        m["not_applicable"].append({"property_id": pid, "reason": not_yet.get(pid, "not claimed yet: the Coq model and correspondence check for this property are still under construction (see DESIGN.md section 7); no other technique is substituted")})
json.dump(m, open(os.path.join(VERIF, "MANIFEST.json"), "w"), indent=1)
print("MANIFEST.json: %d checks, %d not claimed" % (len(m["checks"]), len(m["not_applicable"])))
