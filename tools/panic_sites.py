#!/usr/bin/env python3
"""panic_sites.py — inventory of the Rust constructs that can panic in the modelled code.

    panic_sites.py <area>            print the current inventory of the area
    panic_sites.py <area> --check    compare with tools/panic_sites/<area>.expected; exit 1 on any difference
    panic_sites.py <area> --update   rewrite the expected file, keeping existing annotations

A line of the inventory is `file :: function :: normalised source line`.  The expected file carries,
after ` ## `, how the site is discharged (explicit Panic outcome in the model / excluded by a guard
or lemma / cannot overflow because ...).  A site that is new, moved to another function or whose
text changed breaks the tie of the panic-freedom properties (C02, C04, C16, C19, C26): the check then
searches for a panicking input and otherwise reports `no-failing-input-found`.
"""
import os, re, sys
HERE = os.path.dirname(os.path.abspath(__file__))
REPO = os.path.realpath(os.path.join(HERE, "..", "harness", "repo"))

AREAS = {
    "sim": ["src/sim.rs", "src/sim/mem.rs", "src/sim/frame.rs", "src/sim/observer.rs", "src/sim/debug.rs",
            "src/sim/device.rs", "src/sim/device/keyboard.rs", "src/sim/device/display.rs", "src/sim/device/timer.rs",
            "src/ast/sim.rs"],
    "asm": ["src/asm.rs", "src/err.rs", "src/ast.rs", "src/ast/asm.rs"],
    "parse": ["src/parse.rs", "src/parse/lex.rs"],
    "encoding": ["src/asm/encoding.rs"],
}
RISKY = [
    r"\.unwrap\(\)", r"\.expect\(", r"unreachable!", r"\bpanic!", r"\bassert(_eq|_ne)?!", r"\bdebug_assert", r"\btodo!", r"\bunimplemented!",
    r"[A-Za-z0-9_\)\]]\[[^\]]*\]",                 # indexing / slicing
    r"[^=!<>+\-*/|&^%]\s[+\-*/%]\s", r"[+\-*/%]=\s", r"<<", r"\bsplit_at\(", r"copy_from_slice\(", r"\.remove\(", r"from_utf8_unchecked",
]
RISKY_RE = re.compile("|".join("(?:%s)" % r for r in RISKY))
SAFE_LINE = re.compile(r"^\s*(#\[|//|use |pub use |mod |pub mod |\}|\{|$)")

def strip_comments_strings(line):
    line = re.sub(r'"(?:[^"\\]|\\.)*"', '""', line)       # string literals
    line = re.sub(r"'(?:[^'\\]|\\.)'", "''", line)          # char literals
    line = re.sub(r"//.*$", "", line)
    return line

def inventory(area):
    out = []
    for rel in AREAS[area]:
        p = os.path.join(REPO, rel)
        if not os.path.exists(p):
            out.append("%s :: <missing> :: file not found" % rel); continue
        fn = "<top>"
        in_block_comment = False
        for raw in open(p, encoding="utf-8"):
            if re.match(r"\s*(#\[cfg\(test\)\])", raw):
                break                                   # the unit tests are not modelled
            line = raw.rstrip("\n")
            if in_block_comment:
                if "*/" in line: in_block_comment = False
                continue
            if line.lstrip().startswith("/*") and "*/" not in line:
                in_block_comment = True; continue
            m = re.search(r"\bfn\s+([A-Za-z0-9_]+)", line)
            if m: fn = m.group(1)
            if SAFE_LINE.match(line): continue
            code = strip_comments_strings(line)
            if "cfg(endorpersand_lc3_ensemble_verif)" in code: continue
            if fn.startswith("verif_"): continue
            if re.search(r"\bfn\s+fmt\b", code): pass
            if fn in ("fmt", "help", "fmt_bp", "fmt_cmp"): continue    # Display/Debug/help texts: not modelled, no property mentions them
            if RISKY_RE.search(code):
                # generic parameter lists and type positions are not operations
                c2 = re.sub(r"<[A-Za-z0-9_ ,:'&\[\];=]*>", "", code)
                c2 = re.sub(r"->\s*[^{]*", "", c2) if c2.strip().startswith(("fn ", "pub fn ", "pub(crate) fn ", "pub(super) fn ")) else c2
                if not RISKY_RE.search(c2): continue
                out.append("%s :: %s :: %s" % (rel, fn, " ".join(code.split())))
    return out

def main():
    area = sys.argv[1]
    inv = inventory(area)
    exp_path = os.path.join(HERE, "panic_sites", area + ".expected")
    if "--update" in sys.argv:
        notes = {}
        if os.path.exists(exp_path):
            for l in open(exp_path):
                k, _, n = l.rstrip("\n").partition(" ## ")
                notes[k] = n
        with open(exp_path, "w") as f:
            for l in inv:
                f.write("%s ## %s\n" % (l, notes.get(l, "TODO")))
        print("%s: %d sites written" % (exp_path, len(inv))); return 0
    if "--check" in sys.argv:
        exp = [l.rstrip("\n").partition(" ## ")[0] for l in open(exp_path)] if os.path.exists(exp_path) else []
        new = [l for l in inv if l not in exp]
        gone = [l for l in exp if l not in inv]
        for l in new: print("NEW  " + l)
        for l in gone: print("GONE " + l)
        return 1 if (new or gone) else 0
    print("\n".join(inv)); return 0

if __name__ == "__main__":
    sys.exit(main())
