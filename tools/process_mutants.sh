#!/bin/bash
# tools/process_mutants.sh <id> : for every /tmp/mut/<id>.out/m<k>: confirm in the scratch worktree /tmp/mut/<id>
# (suite passes with the mutant; demo fails with it and passes without), run ./check <id> with the patch applied to
# /repo (and undone right afterwards), and store confirmed mutants under /verif/seeded/<id>/m<k>/ with the outcome.
id=$1
wt=/tmp/mut/$id
for d in /tmp/mut/$id.out/m*; do
  [ -f "$d/patch.diff" ] || continue
  k=$(basename $d)
  cd $wt && git checkout -q -- . && git clean -fdq tests examples 2>/dev/null
  if ! git apply --check "$d/patch.diff" 2>/dev/null; then echo "$id $k: patch does not apply"; continue; fi
  mkdir -p tests && cp "$d/demo.rs" tests/demo.rs
  base=$(cargo test --offline --test demo 2>&1 | grep -E "^test result" | head -1)
  git apply "$d/patch.diff"
  suite=$(cargo test --offline --lib 2>&1 | grep -E "^test result" | head -1)
  withm=$(cargo test --offline --test demo 2>&1 | grep -E "^test result" | head -1)
  git checkout -q -- . ; git clean -fdq tests 2>/dev/null
  ok_base=$(echo "$base" | grep -c "test result: ok")
  ok_suite=$(echo "$suite" | grep -c "35 passed; 0 failed")
  fail_with=$(echo "$withm" | grep -c "FAILED")
  det=$(cd /verif && tools/try_mutant.sh $id "$d/patch.diff" | head -2 | tr '\n' ' ')
  echo "$id $k: demo-without=[$base] suite-with=[$suite] demo-with=[$withm] check=[$det]"
  if [ "$ok_base" = 1 ] && [ "$ok_suite" = 1 ] && [ "$fail_with" = 1 ]; then
    out=/verif/seeded/$id/$k; mkdir -p $out
    cp "$d/patch.diff" "$d/demo.rs" $out/
    python3 - "$d/meta.json" "$out/meta.json" "$det" "$base" "$suite" "$withm" <<'PY'
import json,sys
m=json.load(open(sys.argv[1]))
m["confirmed_by_coordinator"]={"demo_without_mutant":sys.argv[4],"suite_with_mutant":sys.argv[5],"demo_with_mutant":sys.argv[6],
  "how":"scratch worktree: cargo test --offline --lib with the patch; demo.rs as tests/demo.rs with and without the patch"}
m["check_result"]=sys.argv[3]
json.dump(m,open(sys.argv[2],"w"),indent=1)
PY
  else echo "   NOT CONFIRMED, not stored"; fi
done
