"""Per-property configuration, one JSON file per property in tools/propcfg.d/Cxx.json:
  title        property title
  props        coq/props/<props>.v holds the theorems of the property
  areas        harness areas to run (each writes correspondence cases + direct failures)
  technique, level_text, level_note, design_ref      words for MANIFEST.json
  modelled     Rust items the Coq model covers
  exhaustive_quick / exhaustive_thorough             true when that tier enumerates a finite space completely
  trusted_extra  extra trusted-base lines (e.g. stdlib axioms used, oracle inputs)
  axioms_allowed names of standard-library axioms that may appear under Print Assumptions
  rule         how cases are generated / what makes one non-trivial (for the evidence file)
"""
import glob, json, os

TRUSTED_COMMON = [
    "Coq 8.16.1 kernel (coqc, full .vo build, no -vos); vm_compute used for finite sweeps; no native_compute",
    "axioms reported by Print Assumptions under every theorem of the property: none (Closed under the global context) unless listed in axioms_allowed",
    "extraction to OCaml with the directives of ExtrOcamlBasic only (bool, option, unit, list, prod, sumbool, sumor; andb/orb inlined); Z/positive/ascii/string stay extracted inductives; ocamlfind ocamlopt 4.13.1",
    "ocaml/driver.ml (text <-> tree conversion, string comparison) and the Rust harness generators/canonical printers (harness/src), built against /repo's working tree with --cfg endorpersand_lc3_ensemble_verif and overflow checks on",
    "tools/translate.py (regex translation of constants/tables from /repo/src into coq/gen)",
]

PROPS = {}
for _f in sorted(glob.glob(os.path.join(os.path.dirname(os.path.abspath(__file__)), "propcfg.d", "C*.json"))):
    PROPS[os.path.basename(_f)[:-5]] = json.load(open(_f))
