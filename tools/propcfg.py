"""Per-property configuration: which Coq file states it, which harness areas tie the model to
/repo and search the implementation for a failing input, and the words used in MANIFEST.json.

areas:    harness areas to run (each writes correspondence cases + direct failures)
props:    coq/props/<props>.v holds the theorems of the property
level:    MANIFEST level category
"""

TRUSTED_COMMON = [
    "Coq 8.16.1 kernel (coqc, full .vo build, no -vos); vm_compute used for finite sweeps; no native_compute",
    "axioms reported by Print Assumptions under every theorem of the property: none (Closed under the global context) unless listed in 'axioms'",
    "extraction to OCaml with the directives of ExtrOcamlBasic only (bool, option, unit, list, prod, sumbool, sumor; andb/orb inlined); Z/positive/ascii/string stay extracted inductives; ocamlfind ocamlopt 4.13.1",
    "ocaml/driver.ml (text <-> tree conversion, string comparison) and the Rust harness generators/canonical printers (harness/src), built against /repo's working tree with --cfg endorpersand_lc3_ensemble_verif and overflow checks on",
    "tools/translate.py (regex translation of constants/tables from /repo/src into coq/gen)",
]

PROPS = {
    "C35": dict(
        title="Bounded offsets accept exactly the representable values",
        props="C35", areas=["offset"],
        technique="Coq proof (arithmetic, all n in 1..16 and all 16-bit values) + exhaustive model/implementation correspondence",
        level_text="Theorems C35_* prove for every width 1..16 and every 16-bit value that new/new_trunc of the model are the representability test and the sign/zero extension; the model is compared with Offset::<i16|u16,N>::new/new_trunc on every (N, value) pair (exhaustive in the thorough tier, every 7th value plus all boundaries in the quick tier), so the theorem transfers to the code on the whole domain.",
        level_note="Trusted: Coq kernel, extraction (ExtrOcamlBasic), driver/harness glue. Modelled by hand: Rust's 16-bit shl/shr semantics (model/Bits.v); N=0 and N>16 are Panic in model and code (overflow checks on).",
        design_ref="6/C35",
        modelled=["src/ast.rs: OffsetBacking::truncate (i16,u16), Offset::new, Offset::new_trunc, Offset::get"],
    ),
    "C06": dict(
        title="Instruction decoding is the exact inverse of encoding",
        props="C06", areas=["instr"],
        technique="Coq proof by complete finite sweep (all 65536 words, all valid instructions; vm_compute lifted to a bounded forall) + exhaustive model/implementation correspondence",
        level_text="The domain is finite: theorems C06_* hold for all 65536 words and all ~40k representable instructions of the model (boolean check computed by the kernel, lifted with forall_range); classify (spec/IsaEncoding.v) is an independent ISA format table. decode and encode of the implementation are compared with the model on every word and every representable instruction in both tiers, so the theorems transfer to the code on the whole domain.",
        level_note="Trusted: Coq kernel incl. vm_compute, extraction, driver/harness glue (harness enumerates instructions through the public constructors). Modelled by hand: join_bits/slice/interpret (model/Instr.v); opcode constants regenerated from src/ast/sim.rs.",
        design_ref="6/C06", exhaustive_quick=True, exhaustive_thorough=True,
        modelled=["src/ast/sim.rs: SimInstr::{opcode,encode,decode}, join_bits, DecodeUtils::{slice,assert_equals,interpret}, FromBits for Reg/IOffset/Offset<u16>"],
    ),
}
