"""Per-property configuration: which Coq file states it, which harness areas tie the model to
/repo and search the implementation for a failing input, and the words used in MANIFEST.json.

areas:    harness areas to run (each writes correspondence cases + direct failures)
props:    coq/props/<props>.v holds the theorems of the property
level:    MANIFEST level category
"""

TRUSTED_COMMON = [
    "Coq 8.16.1 kernel (coqc, full .vo build, no -vos); vm_compute used for finite sweeps; no native_compute",
    "axioms reported by Print Assumptions under every theorem of the property: none (Closed under the global context) unless listed in 'axioms'",
    "extraction to OCaml with the directives of ExtrOcamlBasic only (bool, option, unit, list, prod, sumbool, sumor; andb/orb inlined); Z/positive/ascii/string stay extracted inductives; ocamlfind ocamlopt 4.13.1",
    "ocaml/driver.ml (text <-> tree conversion, string comparison) and the Rust harness generators/canonical printers (harness/src), built against /repo's working tree with --cfg endorpersand_lc3_ensemble_verif and overflow checks on",
    "tools/translate.py (regex translation of constants/tables from /repo/src into coq/gen)",
]

PROPS = {
    "C35": dict(
        title="Bounded offsets accept exactly the representable values",
        props="C35", areas=["offset"],
        technique="Coq proof (arithmetic, all n in 1..16 and all 16-bit values) + exhaustive model/implementation correspondence",
        level_text="Theorems C35_* prove for every width 1..16 and every 16-bit value that new/new_trunc of the model are the representability test and the sign/zero extension; the model is compared with Offset::<i16|u16,N>::new/new_trunc on every (N, value) pair (exhaustive in the thorough tier, every 7th value plus all boundaries in the quick tier), so the theorem transfers to the code on the whole domain.",
        level_note="Trusted: Coq kernel, extraction (ExtrOcamlBasic), driver/harness glue. Modelled by hand: Rust's 16-bit shl/shr semantics (model/Bits.v); N=0 and N>16 are Panic in model and code (overflow checks on).",
        design_ref="6/C35",
        modelled=["src/ast.rs: OffsetBacking::truncate (i16,u16), Offset::new, Offset::new_trunc, Offset::get"],
    ),
}
