#!/usr/bin/env python3
"""Print the markdown table of seeded changes (seeded/<id>/m<k>/meta.json) for DESIGN.md."""
import glob, json, os, re
rows = []
for p in sorted(glob.glob(os.path.join(os.path.dirname(os.path.abspath(__file__)), "..", "seeded", "C*", "m*", "meta.json"))):
    d = json.load(open(p))
    pid = p.split(os.sep)[-3]; k = p.split(os.sep)[-2]
    res = d.get("check_result", "")
    m = re.search(r"replay=\S*/(C\d+-[A-Za-z0-9_]+)\.json( no-failing-input-found)?", res)
    how = ("failing input: class `%s`" % m.group(1).split("-", 1)[1] if m and not m.group(2) else
           "no-failing-input-found (correspondence/theorem)" if m else ("MISSED" if res.startswith("OK") else res[:60]))
    if d.get("check_result_before_strengthening", "").startswith("OK") or "no-failing-input-found" in d.get("check_result_before_strengthening", ""):
        how += " (after strengthening the oracle/generator; before: %s)" % ("missed" if d["check_result_before_strengthening"].startswith("OK") else "correspondence only")
    rows.append("| %s/%s | %s | %s | %s |" % (pid, k, d.get("summary", "").replace("|", "/").replace("\n", " ")[:160], d.get("needs", "").replace("|", "/").replace("\n", " ")[:140], how))
print("| change | what it does | needs | `./check` (quick tier) |\n|---|---|---|---|")
print("\n".join(rows))
