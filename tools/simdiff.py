#!/usr/bin/env python3
"""developer helper: show where impl and model outputs of MISMATCH lines diverge"""
import sys
n=int(sys.argv[2]) if len(sys.argv)>2 else 3
seen=0
for line in open(sys.argv[1]):
    if not line.startswith('MISMATCH'): continue
    parts=line.rstrip('\n').split('\t')
    impl=parts[3][5:]; model=parts[4][6:]
    k=0
    while k<min(len(impl),len(model)) and impl[k]==model[k]: k+=1
    print("diverge at",k,"of",len(impl),len(model))
    print(" impl :",impl[max(0,k-250):k+250])
    print(" model:",model[max(0,k-250):k+250])
    seen+=1
    if seen>=n: break
