#!/usr/bin/env python3
"""tools/store_from_log.py <log>... : store the mutants a confirmation log (lines written by tools/process_mutants.sh or
the lane variant: `<id> m<k>: demo-without=[..] suite-with=[..] demo-with=[..] check=[..]`) shows as confirmed under
/verif/seeded/<id>/m<k>/ (patch.diff, demo.rs, meta.json).  The check result is filled in later by tools/sweep_seeded.sh."""
import json, os, re, shutil, sys
pat = re.compile(r'^(C\d+) (m\d+): demo-without=\[(.*?)\] suite-with=\[(.*?)\] demo-with=\[(.*?)\] check=\[(.*)\]\s*$')
for log in sys.argv[1:]:
    for line in open(log, errors='replace'):
        m = pat.match(line)
        if not m: continue
        pid, k, base, suite, withm, det = m.groups()
        ok = 'test result: ok' in base and '35 passed; 0 failed' in suite and 'FAILED' in withm
        src = f'/tmp/mut/{pid}.out/{k}'
        if not ok: print(f'{pid} {k}: NOT CONFIRMED, not stored'); continue
        out = f'/verif/seeded/{pid}/{k}'
        os.makedirs(out, exist_ok=True)
        shutil.copy(f'{src}/patch.diff', out); shutil.copy(f'{src}/demo.rs', out)
        if os.path.exists(f'{src}/patch.orig.diff'): shutil.copy(f'{src}/patch.orig.diff', out)
        meta = json.load(open(f'{src}/meta.json'))
        meta['confirmed_by_coordinator'] = {'demo_without_mutant': base, 'suite_with_mutant': suite, 'demo_with_mutant': withm,
            'how': 'scratch worktree: cargo test --offline --lib with the patch; demo.rs as tests/demo.rs with and without the patch'}
        if os.path.exists(f'{src}/patch.orig.diff'):
            meta['rebased'] = 'patch.diff is the same edit rebased onto the current main (the original, patch.orig.diff, was written against an older commit and no longer applies); re-confirmed after rebasing'
        meta['check_result'] = 'pending sweep'
        json.dump(meta, open(f'{out}/meta.json', 'w'), indent=1)
        print(f'{pid} {k}: stored')
