#!/bin/bash
# tools/sweep_seeded.sh [nlanes] [id...] : run every stored seeded change (/verif/seeded/<id>/m<k>/patch.diff) against the
# current machinery and record the outcome in its meta.json ("check_result").  /repo itself is never modified: each lane
# works on scratch copies /tmp/sweep/lane<i>/{verif,repo} (copies of the current /verif working tree and of /repo HEAD),
# applies the patch to its repo copy, runs `./check <id> --tier quick` in its verif copy and undoes the patch.
# The scratch copies are removed at the end.  Results: build/sweep/<id>-m<k>.txt and seeded/<id>/m<k>/meta.json.
n=${1:-3}; shift
ids="$@"; [ -z "$ids" ] && ids=$(ls /verif/seeded)
S=${SWEEP_DIR:-/tmp/sweep}; mkdir -p $S /verif/build/sweep
# SWEEP_ONLY="m4 m5" restricts the sweep to those change numbers
jobs=(); for id in $ids; do for d in /verif/seeded/$id/m*; do k=$(basename $d); [ -n "$SWEEP_ONLY" ] && ! echo " $SWEEP_ONLY " | grep -q " $k " && continue; [ -f $d/patch.diff ] && jobs+=("$id/$k"); done; done
echo "${#jobs[@]} seeded changes, $n lanes"
lane() {
  i=$1; V=$S/lane$i/verif; R=$S/lane$i/repo
  if [ ! -d $V ]; then
    mkdir -p $S/lane$i
    if [ -d /tmp/lane$i/verif ]; then mv /tmp/lane$i/verif $V; mv /tmp/lane$i/repo $R; fi
  fi
  [ -d $R ] || git clone -q /repo $R
  git -C $R checkout -q -- . ; git -C $R fetch -q /repo main && git -C $R reset -q --hard FETCH_HEAD
  mkdir -p $V
  rsync -a --delete --exclude .git --exclude build --exclude harness/target --exclude harness/repo --exclude 'coq/**/*.vo*' --exclude 'coq/**/*.glob' --exclude 'coq/**/.*.aux' --exclude coq/Makefile --exclude coq/Makefile.conf --exclude 'coq/.Makefile.d' --exclude ocaml/_build --exclude replays --exclude evidence /verif/ $V/
  mkdir -p $V/evidence $V/replays $V/build
  ln -sfn $R $V/harness/repo
  k=0
  for j in "${jobs[@]}"; do
    k=$((k+1)); [ $(( (k-1) % n )) -eq $((i-1)) ] || continue
    id=${j%/*}; m=${j#*/}
    git -C $R checkout -q -- . ; 
    if ! git -C $R apply --check /verif/seeded/$j/patch.diff 2>/dev/null; then echo "PATCH-DOES-NOT-APPLY" > /verif/build/sweep/$id-$m.txt; continue; fi
    git -C $R apply /verif/seeded/$j/patch.diff; touch $R/src/lib.rs
    (cd $V && ./check $id --tier quick 2>&1 | grep -E "^(OK|VIOLATION|KNOWN|  )" | sed "s#$V#/verif#g" | cut -c1-400 | head -4) > /verif/build/sweep/$id-$m.txt
    git -C $R checkout -q -- . ; touch $R/src/lib.rs
    echo "lane$i $id $m: $(grep -E '^(OK|VIOLATION)' /verif/build/sweep/$id-$m.txt | cut -c1-120 | head -1)"
  done
}
for i in $(seq 1 $n); do lane $i & done; wait
python3 - <<'PY'
import json, glob, os
for f in sorted(glob.glob('/verif/build/sweep/*.txt')):
    pid, m = os.path.basename(f)[:-4].split('-')
    mp = f'/verif/seeded/{pid}/{m}/meta.json'
    if not os.path.exists(mp): continue
    meta = json.load(open(mp))
    meta['check_result'] = ' '.join(open(f).read().split('\n')).strip()
    json.dump(meta, open(mp, 'w'), indent=1)
PY
rm -rf $S
