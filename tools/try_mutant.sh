#!/bin/bash
# tools/try_mutant.sh <property id> <patch.diff> : apply the patch to /repo, run the property's quick check, undo.
# Prints the VIOLATION/OK line. Never leaves /repo modified; the property's evidence file (rewritten by the run with the
# change applied) is restored from git afterwards. The harness binary it leaves behind is rebuilt by the next ./check.
id=$1; patch=$2
cd /repo || exit 2
if ! git apply --check "$patch" 2>/dev/null; then echo "PATCH-DOES-NOT-APPLY $patch"; exit 3; fi
git apply "$patch"
cd /verif && ./check "$id" --tier quick 2>&1 | grep -E "^(OK|VIOLATION|KNOWN|  )" | cut -c1-300 | head -4
git -C /repo checkout -- . ; git -C /repo status --short | head -2
git -C /verif checkout -- "evidence/$id.json" 2>/dev/null
