#!/usr/bin/env python3
"""Regenerate section 11 of DESIGN.md (between the markers) from seeded/*/meta.json."""
import os, re, subprocess, sys, json, glob
V = os.path.dirname(os.path.dirname(os.path.abspath(__file__)))
table = subprocess.run([sys.executable, os.path.join(V, "tools", "seeded_table.py")], capture_output=True, text=True).stdout
metas = [json.load(open(p)) for p in glob.glob(os.path.join(V, "seeded", "C*", "m*", "meta.json"))]
n = len(metas)
fi = sum(1 for m in metas if "VIOLATION" in m.get("check_result", "") and "no-failing-input-found" not in m.get("check_result", ""))
nf = sum(1 for m in metas if "no-failing-input-found" in m.get("check_result", ""))
miss = n - fi - nf
strengthened = sum(1 for m in metas if m.get("check_result_before_strengthening"))
head = f"""## 11. Seeded changes and which check catches them

{n} changes to /repo (three per property for all 36 properties, plus two more for twenty-four of them in two later rounds with the extra guidance quoted in `docs/MUTANT_PROMPT.txt`) were written by fresh sub-agents that were given only the text
of one property and a scratch worktree of /repo (prompt: `docs/MUTANT_PROMPT.txt`); each compiles, passes the 35 pinned
tests, and comes with a demonstration that fails with the change and passes without — all three re-confirmed by me in a
scratch worktree before the change was stored under `seeded/<id>/m<k>/`. None was ever committed to /repo. The last
column is what `./check <id>` (quick tier, seed 1) prints with the change applied (`tools/sweep_seeded.sh`, on scratch
copies of /verif and /repo): **{fi}** are reported with a concrete failing input on the implementation, **{nf}** only as a
broken correspondence/theorem (`no-failing-input-found`), **{miss}** are missed. {strengthened} of them were first missed or
caught only by the correspondence; for each of those the generator or the direct oracle was extended (never loosened) until
the check names a failing input — the row says so, and `meta.json` keeps the earlier result. What was extended:
link generator (definitions at x0000, exact one-word overlaps), C12 (`run_with_limit` with the exact budget; pairs with
`ignore_privilege`), C10 (a TRAP leaves the current priority alone), C01/C23/C24 (rejection of a well-formed program is a
failing input of those properties too), C33 (input typed while the program runs), C17 (giant blocks), C19 (a process that
dies is re-run input by input), C31 (machines reset before the compared runs, timer area), C08 (`isa.run` against the
reference semantics counts as failing input), C09/C14/C27/C28 (directed boundary programs, frame arguments, denied and
untracked accesses, strict-mode panics), C34 (seed 0); in the later round: C11 (packed strings ending at a zero low byte
under a non-zero high byte), C27 (a refused return must not pop; directed call/return programs in strict mode), C28 (the observer
after a multi-step run against the OR of a twin's single steps), C02/C01 (labels with non-ASCII letters in two letter cases: a direct
oracle outside the model's ASCII case folding), C19 (empty blocks inside a partner's block in files that define the partner's external).

"""
s = open(os.path.join(V, "DESIGN.md")).read()
block = "<!-- seeded:begin -->\n" + head + table + "<!-- seeded:end -->\n"
if "<!-- seeded:begin -->" in s:
    s = re.sub(r"<!-- seeded:begin -->.*<!-- seeded:end -->\n", lambda _: block, s, flags=re.S)
else:
    s = s.rstrip("\n") + "\n\n---------------------------------------------------------------------------------------------\n\n" + block
open(os.path.join(V, "DESIGN.md"), "w").write(s)
print(f"section 11: {n} changes, {fi} failing-input, {nf} no-failing-input, {miss} missed")
